"""C13 - every input is answered with output or a located diagnostic.

Level claimed: exploration (DESIGN 5, C13): a thin TLA+ outcome monitor, a
systematically enumerated input space.

1. TLC: tla/robust/Outcome.tla - the front end as a pipeline automaton
   tokenize -> preprocess -> parse -> codegen -> write -> as; terminal states
   Accepted / Diagnosed(file, line); forbidden terminals Signalled,
   InternalError, Silent, Timeout, BadLocation, NoOutput, AsRejected.  Model
   checked (the observation classifier agrees with the automaton on every path);
   sensitivity control: a front end whose stages may crash (Robust = FALSE) must
   be rejected.
2. TLC enumerates the input space (tla/robust/Edits.tla): for every seed token
   sequence all single edits Delete(i) Replace(i,t) Insert(i,t) Dup(i) Swap(i),
   t from a 64-token alphabet, and pairs of edits for short seeds; quick =
   VERIF_SEED-selected 1/Stride of that closed domain.  TLC emits the edited
   sequence itself (seed token indices / alphabet indices); the harness only
   renders it.  Families without a seed: the byte-level end-of-file family, the redeclaration
   family and the zero-sized family (an object type of size 0 x every context an object or a
   value can appear in x position; all 360 members in every tier).
3. Every input is run through `chibicc -cc1 -cc1-input F -cc1-output O F` (wait
   status visible) under a 5 s limit, then `as` on the output if exit 0; the
   observation {status, signal, first stderr line, output exists, as status} is
   one event validated by TLC against tla/robust/OutcomeTrace.tla, which rejects
   every forbidden terminal.  Valid seeds and the valid C12 corpus must be
   Accepted.
Findings are keyed by crash site (top in-tree frame of gdb's backtrace /
assertion text / internal-error location), not by input.
"""
import glob, hashlib, json, os, re, sys, threading, time
sys.path.insert(0, os.path.dirname(os.path.abspath(__file__)))
import vt
from vt import Infra

LEVEL = "exploration"
SEEDS = os.path.join(vt.VERIF, "seeds")

# the edit alphabet (Edits.tla works on its indices 1..NAlpha).  "\n#..." tokens start a new line.
ALPHABET = ["int", "char", "void", "long", "unsigned", "double", "struct", "union", "enum", "typedef", "static", "extern",
            "const", "return", "if", "else", "for", "while", "do", "switch", "case", "default", "break", "goto",
            "sizeof", "_Alignof", "_Generic", "x", "f", "T", "0", "1", "1.5", "'a'", '"s"',
            "(", ")", "{", "}", "[", "]", ";", ",", ":", "?", ".", "->", "...", "=", "+", "-", "*", "/", "%", "&", "<",
            "==", "&&", "++", "#", "##", "\n#define", "\n#include", "\n#if", "\n#endif\n", "__attribute__", "asm", "\n"]

TOKEN_RE = re.compile(r'''
    (?P<nl>\n)
  | (?P<ws>[ \t\r\f\v]+)
  | (?P<lc>//[^\n]*)
  | (?P<bc>/\*.*?\*/)
  | (?P<str>(?:u8|u|U|L)?"(?:\\.|[^"\\\n])*")
  | (?P<chr>(?:u|U|L)?'(?:\\.|[^'\\\n])*')
  | (?P<num>\.?[0-9](?:[eEpP][+-]|[0-9a-zA-Z_.])*)
  | (?P<id>[A-Za-z_$][A-Za-z0-9_$]*)
  | (?P<punct><<=|>>=|\.\.\.|==|!=|<=|>=|->|\+=|-=|\*=|/=|\+\+|--|%=|&=|\|=|\^=|&&|\|\||<<|>>|\#\#|.)
''', re.X | re.S)


HEADER_RE = re.compile(r'[ \t]*(<[^>\n]*>|"[^"\n]*")')


def tokenize(text):
    """A simple C tokenizer for the seeds.  Newline tokens are kept only if the text has directives; a
    header-name after #include and `NAME(` after #define (a function-like macro's lparen must not be
    preceded by white space) are single tokens, as in the C grammar."""
    keepnl = re.search(r"(?m)^\s*#", text) is not None
    toks, pos = [], 0
    while pos < len(text):
        if toks[-2:] == ["#", "include"]:
            m = HEADER_RE.match(text, pos)
            if m:
                toks.append(m.group(1))
                pos = m.end()
                continue
        m = TOKEN_RE.match(text, pos)
        pos = m.end()
        k = m.lastgroup
        if k in ("ws", "lc", "bc"):
            continue
        if k == "nl":
            if keepnl and toks and toks[-1] != "\n":
                toks.append("\n")
            continue
        t = m.group()
        if k == "id" and toks[-2:] == ["#", "define"] and text[pos:pos + 1] == "(":
            t, pos = t + "(", pos + 1
        toks.append(t)
    while toks and toks[-1] == "\n":
        toks.pop()
    return toks


def render(toks):
    out = []
    for t in toks:
        if t.startswith("\n") or (out and out[-1].endswith("\n")):
            out.append(t)
        else:
            out.append((" " if out else "") + t)
    s = "".join(out)
    return s if s.endswith("\n") else s + "\n"


def apply_edit(toks, e):
    """Edits.tla Apply: i is 1-based; Insert(i) inserts before position i (i = n+1 appends)."""
    k, i = e["k"], e["i"]
    t = ALPHABET[e["t"] - 1] if e.get("t") else None
    s = list(toks)
    if k == "del":
        return s[:i - 1] + s[i:]
    if k == "rep":
        return s[:i - 1] + [t] + s[i:]
    if k == "ins":
        return s[:i - 1] + [t] + s[i - 1:]
    if k == "dup":
        return s[:i] + [s[i - 1]] + s[i:]
    if k == "swap":
        return s[:i - 1] + [s[i], s[i - 1]] + s[i + 1:]
    if k == "id":
        return s
    raise ValueError(k)


def load_seeds():
    seeds = []
    for sub in ("valid", "invalid"):
        for f in sorted(glob.glob("%s/%s/*.c" % (SEEDS, sub))):
            text = open(f).read()
            flags = []
            m = re.match(r"//@cc1:([^\n]*)\n", text)        # an option-carrying seed: extra cc1 options on the first line
            if m:
                import shlex
                flags, text = shlex.split(m.group(1)), text[m.end():]
            toks = tokenize(text)
            seeds.append(dict(name="%s-%s" % (sub[0], os.path.basename(f)[:-2]), valid=sub == "valid", text=text, toks=toks, path=f, flags=flags))
    if len(seeds) < 50:
        raise Infra("only %d seeds under %s" % (len(seeds), SEEDS))
    return seeds


# ------------------------------------------------------------------ inputs
def gen_edits(ctx, seeds, stride, pairstride, tailstride, pairmax=6):
    sf = os.path.join(ctx.scratch, "seedlens.ndjson")
    vt.write_ndjson(sf, [dict(n=len(s["toks"])) for s in seeds])
    out = os.path.join(ctx.scratch, "edits.ndjson")
    if os.path.exists(out):
        os.unlink(out)
    pt = sorted(ALPHABET.index(t) + 1 for t in ("int", "x", "(", ")", "{", "}", ";"))
    cfg = ctx.cfg("robust", "Edits.cfg", NAlpha=len(ALPHABET), PairMax=pairmax, PairTok="{%s}" % ",".join(map(str, pt)),
                  Seed=ctx.seed, Stride=stride, PairStride=pairstride, TailStride=tailstride, NDir=len(DIRS), NEnd=len(ENDS),
                  NZ=NZ, NZStruct=NZSTRUCT, NCtx=NCTX, NValCtx=NVALCTX)
    g = ctx.tlc("robust", "Edits", cfg, env=dict(SEEDS=sf, OUT=out), workers=4, timeout=1500, heap="6g")
    if not g.ok:
        raise Infra("Edits.tla: %s\n%s" % (g.violated, g.trace_text()[:1500]))
    rows = vt.read_ndjson(out)
    if len(rows) < 100:
        raise Infra("edit enumerator wrote only %d inputs" % len(rows))
    rows.sort(key=lambda r: json.dumps(r, sort_keys=True))
    return rows


# the byte-level end-of-file family (Edits.tla Tails): trailing directive lines and endings
DIRS = ["#if 1\n#endif", "#pragma once", "#include <stddef.h>", "#define X", "#line 3", "#error x", "#undef X", "#ifdef X\n#else\n#endif"]
ENDS = ["", "\n", "\\\n", "\\", "\r\n", "\r", "\\\r\n", " ", "/*", "//x", "\"", "'"]


# the redeclaration family (Edits.tla Redecls): one identifier, two declarations of kinds a and b, scope arrangement sc
KINDS = {1: "enum { X };", 2: "typedef int X;", 3: "int X;", 4: "int X = 1;", 5: "int X(void);", 6: "int X(void) { return 0; }",
         7: "struct X { int a; };", 8: "X: ;"}
KIND_NAMES = {1: "enumerator", 2: "typedef", 3: "object", 4: "object-init", 5: "function-decl", 6: "function-def", 7: "tag", 8: "label", 9: "parameter"}


def redecl_text(rd):
    a, b, sc = rd["a"], rd["b"], rd["sc"]
    A, B = KINDS.get(a, ""), KINDS[b]
    if sc == 1:
        return "%s\n%s\n" % (A, B)
    if sc == 2:
        return "void f(void) { %s %s }\n" % (A, B)
    if sc == 3:
        return "%s\nvoid f(void) { %s }\n" % (A, B)
    if sc == 4:
        return "void f(int X) { %s }\n" % B
    return "void f(void) { %s { %s } }\n" % (A, B)


# the zero-sized family (Edits.tla Zeros): an object type of size 0 (z) in every context an object or a value can appear in (c),
# at position / in variant p.  Every program with a main() checks itself (exit status 0), so that the family can be validated
# against gcc as a whole: `python3 harness/c13.py --zero-oracle gcc` (development time; gcc accepts and runs every member
# correctly except pointer-arith.3, which it rejects: "arithmetic on pointer to an empty aggregate").  C13 judges the outcome
# class only; the values belong to C06.
ZTYPES = {1: "typedef struct {} Z;", 2: "typedef union {} Z;", 3: "typedef struct { int a[0]; } Z;",
          4: "typedef struct { struct {} i; } Z;", 5: "typedef struct { struct {} i[2]; double d[0]; } Z;",
          6: "typedef struct { int : 0; } Z;", 7: "typedef int Z[0];", 8: "typedef struct {} Z[3];"}
ZNAMES = {1: "empty-struct", 2: "empty-union", 3: "struct-of-int0", 4: "struct-of-empty", 5: "struct-of-empty-array", 6: "struct-of-zero-width",
          7: "array-int0", 8: "array-of-empty"}
CNAMES = {1: "param", 2: "arg-extern", 3: "return", 4: "member-by-value", 5: "assign", 6: "cond-comma-stmtexpr", 7: "variadic-arg", 8: "va_arg",
          9: "variadic-callee-named", 10: "register-exhaustion", 11: "compound-literal", 12: "indirect-call",
          13: "local", 14: "global", 15: "sizeof", 16: "element", 17: "member-init", 18: "pointer-arith"}
NZ, NZSTRUCT, NCTX, NVALCTX = 8, 6, 18, 12


def _ins(items, p, z):
    """the three-slot list with z at position p (1..3)"""
    l = list(items)
    l.insert(p - 1, z)
    return l


def zero_text(z, c, p):
    T = ZTYPES[z] + "\n"
    arr = z > NZSTRUCT
    if c == 1:
        ps, as_ = _ins(["int x", "double d"], p, "Z e"), _ins(["3", "1.0"], p, "e")
        return T + "int f(%s) { return x + (int)d; }\nint main(void) { Z e; return f(%s) - 4; }\n" % (", ".join(ps), ", ".join(as_))
    if c == 2:
        ps, as_ = _ins(["int", "double"], p, "Z"), _ins(["3", "1.0"], p, "e")
        return T + "int g(%s);\nint h(void) { Z e; return g(%s); }\n" % (", ".join(ps), ", ".join(as_))
    if c == 3:
        if p == 1:
            return T + "Z r(int x) { Z e; return e; }\nint main(void) { Z e = r(1); r(2); return 0; }\n"
        if p == 2:
            return T + "Z r(int x) { return (Z){}; }\nint f(Z e, int x) { return x; }\nint main(void) { return f(r(1), 3) - 3; }\n"
        return T + "Z r(int x) { Z e; return e; }\nint main(void) { Z (*fp)(int) = r; Z e; e = fp(1); return 0; }\n"
    if c == 4:
        ms = _ins(["int a;", "double b;"], p, "Z z;")
        return T + "struct W { %s };\nstruct W id(struct W w) { return w; }\nint main(void) { struct W w; w.a = 3; w.b = 1.0; struct W v = id(w); return v.a + (int)v.b - 4; }\n" % " ".join(ms)
    if c == 5:
        body = {1: "Z a, b; a = b;", 2: "Z a, b, c; a = b = c;", 3: "Z a, b; Z *q = &a; *q = b; b = *q;"}[p]
        return T + "int main(void) { %s return 0; }\n" % body
    if c == 6:
        body = {1: "Z a, b; int c = 0; Z d = c ? a : b;", 2: "Z a; int c = 1; Z d = (c++, a); c -= 2;", 3: "Z a; int c = 0; Z d = ({ c; a; });"}[p]
        return T + "int main(void) { %s (void)&d; return c; }\n" % body
    if c == 7:
        as_ = _ins(["5", "2.0"], p, "e")
        return T + "int v(int n, ...);\nint h(void) { Z e; return v(3, %s); }\n" % ", ".join(as_)
    if c == 8:
        get = _ins(["int k = va_arg(ap, int);", "double d = va_arg(ap, double);"], p, "Z e = va_arg(ap, Z);")
        as_ = _ins(["5", "2.0"], p, "e")
        return "#include <stdarg.h>\n" + T + "int v(int n, ...) { va_list ap; va_start(ap, n); %s va_end(ap); (void)&e; return n + k + (int)d; }\nint main(void) { Z e; return v(3, %s) - 10; }\n" % (" ".join(get), ", ".join(as_))
    if c == 9:
        ps, as_ = _ins(["int n", "double d"], p, "Z e"), _ins(["3", "1.0"], p, "e")
        return "#include <stdarg.h>\n" + T + "int v(%s, ...) { va_list ap; va_start(ap, %s); int k = va_arg(ap, int); double q = va_arg(ap, double); va_end(ap); return n + (int)d + k + (int)q; }\nint main(void) { Z e; return v(%s, 5, 2.0) - 11; }\n" % (
            ", ".join(ps), ps[-1].split()[-1], ", ".join(as_))
    if c == 10:
        if p == 1:
            ps = ["int a%d" % i for i in range(1, 7)] + ["Z e", "int a7"]
            as_ = [str(i) for i in range(1, 7)] + ["e", "7"]
            ret, exp = "a1 + a6 + a7", 14
        elif p == 2:
            ps = ["double d%d" % i for i in range(1, 9)] + ["Z e", "double d9"]
            as_ = ["%d.0" % i for i in range(1, 9)] + ["e", "9.0"]
            ret, exp = "(int)(d1 + d8 + d9)", 18
        else:
            ps = ["int a%d" % i for i in range(1, 8)] + ["Z e", "int a8", "Z g", "long double l"]
            as_ = [str(i) for i in range(1, 8)] + ["e", "8", "e", "9.0L"]
            ret, exp = "a1 + a7 + a8 + (int)l", 25
        return T + "int f(%s) { return %s; }\nint main(void) { Z e; return f(%s) - %d; }\n" % (", ".join(ps), ret, ", ".join(as_), exp)
    if c == 11:
        body = {1: "return f((Z){}, 3) - 3;", 2: "Z e = (Z){}; return f(e, 0);", 3: "Z e; e = (Z){}; Z *q = &(Z){}; e = *q; return f(e, 0);"}[p]
        return T + "int f(Z e, int x) { return x; }\nint main(void) { %s }\n" % body
    if c == 12:
        if p == 1:
            return T + "int k();\nint h(void) { Z e; return k(e, 3); }\n"
        if p == 2:
            return T + "int f(Z e, int x) { return x; }\nint main(void) { int (*fp)(Z, int) = f; Z e; return fp(e, 3) - 3; }\n"
        return T + "int f(Z e, int n) { return n ? f(e, n - 1) : 0; }\nint main(void) { Z e; return f(e, 3); }\n"
    if c == 13:
        body = {1: "Z e; Z *q = &e;", 2: "static Z e; Z *q = &e;", 3: "Z e = {}; Z *q = &e;"}[p]
        return T + "int main(void) { %s return q == 0; }\n" % body
    if c == 14:
        decl = {1: "Z g;", 2: "Z g = {};", 3: "static Z g; extern Z x;"}[p]
        return T + decl + "\nZ *q = &g;\nint main(void) { return q == 0; }\n"
    if c == 15:
        body = {1: "int n = sizeof(Z);", 2: "Z e; int n = sizeof e + sizeof(e);", 3: "char b[sizeof(Z) + 1]; int n = sizeof b - 1 + (_Alignof(Z) == 0);"}[p]
        return T + "int main(void) { %s return n; }\n" % body
    if c == 16:
        body = {1: "Z a[3]; Z *q = &a[1]; int n = sizeof a;", 2: ("Z a[3]; Z *q = &a[2]; int n = sizeof a[1];" if arr else "Z a[3]; a[1] = a[2]; Z *q = &a[0]; int n = sizeof a[1];"),
                3: "int m = 2; Z a[m][2]; Z *q = &a[1][1]; int n = sizeof a;"}[p]
        return T + "int main(void) { %s return n + (q == 0); }\n" % body
    if c == 17:
        if p == 1:
            return T + "struct W { int a; Z z; int b; } w = { 1, {}, 2 };\nint main(void) { return w.a + w.b - 3; }\n"
        if p == 2:
            return T + "struct W { int a; Z z; int b; } w = { .b = 2, .z = {}, .a = 1 };\nint main(void) { return w.a + w.b - 3; }\n"
        return T + "struct W { int a; Z z; int b; };\nint main(void) { struct W w = { 1, {}, 2 }; struct W v = (struct W){ .z = {}, .b = 2 }; return w.a + w.b + v.a + v.b - 5; }\n"
    if c == 18:
        body = {1: "Z *r = q + 1; int n = r == 0;", 2: "q++; Z *r = &q[1]; int n = r == 0;", 3: "long n = &a[1] - &a[1]; n = 0;"}[p]
        return T + "int main(void) { Z a[2]; Z *q = a; %s return (int)n; }\n" % body
    raise ValueError(c)


def zero_name(zs):
    return "zero/%s.%s.%d" % (ZNAMES[zs["z"]], CNAMES[zs["c"]], zs["p"])


def text_of(seed, r, tail=None):
    t = render([seed["toks"][j - 1] if j > 0 else ALPHABET[-j - 1] for j in r])
    if not tail or not tail["e"]:
        return t
    t = t[:-1]                       # render() closes with one newline
    if tail["d"]:
        t += "\n" + DIRS[tail["d"] - 1]
    return t + ENDS[tail["e"] - 1]


def edit_name(ed, tail=None):
    if tail and tail["e"]:
        return "tail%d.%d" % (tail["d"], tail["e"])
    return "+".join("%s%d%s" % (e["k"], e["i"], ".%d" % e["t"] if e["t"] else "") for e in ed)


# ------------------------------------------------------------------ worker
LOC_RE = re.compile(r"^(.*?):(\d+): ")
ASM_RE = re.compile(r"\b(asm|__asm__)\b")
LINEDIR_RE = re.compile(r"(?m)^[ \t]*#[ \t]*(line\b|\d)")


def nlines_of(b):
    """lines(file): the compiler supplies a missing final newline (a non-empty source file shall end in one, 5.1.1.2p2),
    and the position after the final newline - where the EOF token sits - counts as a line"""
    return b.count(b"\n") + 1 + (1 if b and not b.endswith(b"\n") else 0)


def worker_main(jobfile):
    """`python3 c13.py --worker jobs.json` under vt.run_limited: for every job write the input, run the front end
    directly (wait status visible) under a 5 s CPU / 30 s wall limit, then `as` on the output if it exited 0."""
    import resource, signal, subprocess
    spec = json.load(open(jobfile))
    cc, d = spec["cc"], spec["dir"]

    def pre():
        os.setsid()
        resource.setrlimit(resource.RLIMIT_CPU, (spec["cpu"], spec["cpu"] + 1))
        resource.setrlimit(resource.RLIMIT_FSIZE, (64 << 20, 64 << 20))
        resource.setrlimit(resource.RLIMIT_CORE, (0, 0))
    e = dict(os.environ)
    e.pop("CHIBICC_VERIF_TRACE", None)
    with open(jobfile + ".res", "w") as res:
        for j in spec["jobs"]:
            flags = j.get("flags", [])
            if "text" in j:
                f = "%s/i%d.c" % (d, j["id"])
                if "SELFNAME" in j["text"] or any("SELFNAME" in x for x in flags):
                    # a self-including seed: SELFNAME is the input's own name (no dot: it is also stringized token by token)
                    f = "%s/i%d" % (d, j["id"])
                    j["text"] = j["text"].replace("SELFNAME", os.path.basename(f))
                    flags = [x.replace("SELFNAME", os.path.basename(f)) for x in flags]
                open(f, "w", newline="", encoding=j.get("enc", "utf-8")).write(j["text"])
            else:
                f = j["path"]
            o, ef = "%s/o%d.s" % (d, j["id"]), "%s/e%d" % (d, j["id"])
            cmd = [cc, "-cc1"] + flags + ["-cc1-input", f, "-cc1-output", o, f]
            with open(ef, "wb") as efh:
                p = subprocess.Popen(cmd, cwd=d, env=e, stdin=subprocess.DEVNULL, stdout=subprocess.DEVNULL, stderr=efh, preexec_fn=pre)
                try:
                    rc = p.wait(timeout=spec["wall"])
                    tmo = rc in (-signal.SIGXCPU, -signal.SIGXFSZ, -signal.SIGKILL)
                except subprocess.TimeoutExpired:
                    try:
                        os.killpg(p.pid, signal.SIGKILL)
                    except ProcessLookupError:
                        pass
                    p.wait()
                    rc, tmo = -999, True
            err = open(ef, "rb").read(8192).decode(errors="replace")
            os.unlink(ef)
            lines = err.splitlines()
            first = lines[0] if lines else ""
            m = LOC_RE.match(first)
            hasloc, fileok, line, nlines = m is not None, False, 0, 0
            if m:
                line = min(int(m.group(2)), 1 << 30)
                lf = os.path.join(d, m.group(1))          # the front end ran in d; absolute names are unaffected
                if os.path.isfile(lf):
                    fileok = True
                    nlines = nlines_of(open(lf, "rb").read())
            if not nlines:
                nlines = nlines_of(j["text"].encode(j.get("enc", "utf-8")) if "text" in j else open(f, "rb").read())
            if hasloc and "text" in j and LINEDIR_RE.search(j["text"]):
                nlines = max(nlines, line)      # a #line directive is in force: the line is a presumed line (C18 judges those)
            msg = ""
            for l2 in lines[1:3]:
                k = l2.find("^ ")
                if k >= 0:
                    msg = l2[k + 2:]
                    break
            out = os.path.exists(o)
            asrc, aserr = -1, ""
            if rc == 0 and out and "text" in j and ASM_RE.search(j["text"]):
                asrc = 0          # user-written assembler text: what `as` says about it is not the compiler's answer
            elif rc == 0 and out:
                a = subprocess.run(["as", "-o", "/dev/null", o], capture_output=True, text=True, timeout=120, errors="replace")
                asrc = a.returncode
                aserr = "\n".join([x for x in a.stderr.splitlines() if "Error" in x or "error" in x][:2])
            if out:
                os.unlink(o)
            if "text" in j:
                os.unlink(f)
            res.write(json.dumps(dict(id=j["id"], status=rc if 0 <= rc else 0, sig=-rc if -200 < rc < 0 and not tmo else 0, tmo=tmo,
                                      internal=("internal error" in err) or ("Assertion" in err and "failed" in err),
                                      errempty=err.strip() == "", hasloc=hasloc, fileok=fileok, line=line, nlines=nlines,
                                      out=out, **{"as": asrc}, first=first[:300], msg=msg[:200], aserr=aserr[:300],
                                      err2=err[:600] if rc < 0 or "internal error" in err else "")) + "\n")
            res.flush()


def run_inputs(ctx, tree, inputs, label, cpu=5, wall=30):
    """inputs: list of dict(text | path, flags, must, ...) -> the same dicts with 'obs' added"""
    d = ctx.tmp("run-" + label)
    nw = min(vt.NCPU, max(1, len(inputs) // 20))
    files = []
    for i, x in enumerate(inputs):
        x["id"] = i
    for w in range(nw):
        jf = "%s/j%d.json" % (d, w)
        jobs = [dict(id=x["id"], flags=x.get("flags", []), **({"enc": x["enc"]} if "enc" in x else {}),
                     **({"text": x["text"]} if "text" in x else {"path": x["path"]}))
                for x in inputs[w::nw]]
        json.dump(dict(cc=tree + "/chibicc", dir=d, cpu=cpu, wall=wall, jobs=jobs), open(jf, "w"))
        files.append(jf)

    def one(jf):
        vt.run_limited(["python3", os.path.abspath(__file__), "--worker", jf], timeout=3000, mem_gb=4, cpu_s=6000)
        return vt.read_ndjson(jf + ".res")
    n = 0
    for rows in vt.pmap(one, files, workers=nw):
        for r in rows:
            inputs[r["id"]]["obs"] = r
            n += 1
    if n != len(inputs):
        raise Infra("run workers returned %d of %d results (%s)" % (n, len(inputs), label))
    return inputs


OBS_KEYS = ("status", "sig", "tmo", "internal", "errempty", "hasloc", "fileok", "line", "nlines", "out", "as")


def tlc_validate(ctx, inputs, label, count=True):
    """-> {index into inputs: class} of the events TLC rejects"""
    rej = {}
    chunk = 40000
    parts = [list(range(j, min(j + chunk, len(inputs)))) for j in range(0, len(inputs), chunk)]

    def one(t):
        pi, idx = t
        tf = os.path.join(ctx.scratch, "outcome-%s-%d.ndjson" % (label, pi))
        vt.write_ndjson(tf, [dict(e="obs", must=inputs[i]["must"], **{k: inputs[i]["obs"][k] for k in OBS_KEYS}) for i in idx] + [dict(e="eof")])
        out = tf + ".rej"
        ctx.tlc("robust", "OutcomeTrace", "OutcomeTrace.cfg", env=dict(TRACE=tf, OUT=out), workers=1, timeout=1500, count=count, heap="3g")
        rows = vt.read_ndjson(out)
        if not rows or rows[-1]["events"] != len(idx) + 1:
            raise Infra("trace validation %s did not reach the end of the log" % label)
        return {idx[r["at"] - 1]: r["c"] for r in rows[-1]["rejected"]}
    for r in vt.pmap(one, list(enumerate(parts)), workers=4):
        rej.update(r)
    ctx.cov["trace_events"] = ctx.cov.get("trace_events", 0) + len(inputs)
    return rej


# ------------------------------------------------------------- crash sites
FRAME_RE = re.compile(r"^#(\d+)\s+(?:0x[0-9a-f]+ in )?([A-Za-z_][A-Za-z0-9_]*) \(.*?\)(?: at ([^ :]+):(\d+))?", re.M)
SIGNAMES = {11: "SIGSEGV", 8: "SIGFPE", 6: "SIGABRT", 7: "SIGBUS", 4: "SIGILL"}


def frames_of(text, tree_files):
    fr = []
    for m in FRAME_RE.finditer(text):
        f = os.path.basename(m.group(3)) if m.group(3) else None
        fr.append((m.group(2), f if f in tree_files else None))
    return fr


def site_of(frames):
    intree = [fn for fn, f in frames if f]
    if not intree:
        return "outside-tree:%s" % (frames[0][0] if frames else "no-frames")
    if len(frames) >= 40:
        rep = sorted(fn for fn in set(intree) if intree.count(fn) >= 4)
        if rep:
            return "recursion:" + rep[0]
    return intree[0]


def gdb_site(ctx, tree, x, hang=False):
    """top in-tree frame of the backtrace at the signal (or, for a hang, after 2 s)"""
    d = ctx.tmp("gdb")
    h = hashlib.sha1((x.get("text") or x["path"]).encode()).hexdigest()[:12]
    f = x.get("path")
    flags = x.get("flags", [])
    if "text" in x:
        f = "%s/g%s.c" % (d, h)
        txt = x["text"]
        if "SELFNAME" in txt or any("SELFNAME" in y for y in flags):
            f = "%s/g%s" % (d, h)
            txt = txt.replace("SELFNAME", os.path.basename(f))
            flags = [y.replace("SELFNAME", os.path.basename(f)) for y in flags]
        open(f, "w", newline="", encoding=x.get("enc", "utf-8")).write(txt)
    tree_files = set(os.path.basename(p) for p in glob.glob(tree + "/*.c") + glob.glob(tree + "/*.h"))
    args = [tree + "/chibicc", "-cc1"] + flags + ["-cc1-input", f, "-cc1-output", "/dev/null", f]
    if hang:
        script = ["-ex", "run", "-ex", "bt 40"]
        cmd = ["timeout", "-s", "INT", "3", "gdb", "-batch", "-nx"] + script + ["--args"] + args
    else:
        cmd = ["gdb", "-batch", "-nx", "-ex", "run", "-ex", "bt 40", "--args"] + args
    p = vt.run_limited(cmd, timeout=90, mem_gb=8, cwd=d)
    txt = (p.stdout or "") + (p.stderr or "")
    fr = frames_of(txt, tree_files)
    if hang:
        # where a hang is interrupted is arbitrary; the phase cc1() was in (the frame that called down from cc1) is not
        names = [fn for fn, f in fr]
        if "cc1" in names and names.index("cc1") > 0:
            return "phase:" + names[names.index("cc1") - 1], txt[-1500:]
    return site_of(fr), txt[-1500:]


def enclosing_function(tree, fname, line):
    try:
        src = open(os.path.join(tree, os.path.basename(fname))).read().splitlines()
    except OSError:
        return "?"
    for i in range(min(line, len(src)) - 1, -1, -1):
        l = src[i]
        if l[:1].isalpha() or l[:1] == "_":
            m = re.search(r"([A-Za-z_][A-Za-z0-9_]*)\s*\(", l)
            if m and not l.startswith(("typedef", "struct", "union", "enum", "#")):
                return m.group(1)
    return "?"


def norm_msg(s, paths=()):
    for p in paths:
        if p:
            s = s.replace(p, "F")
    s = re.sub(r"/\S*/", "", s)
    s = re.sub(r"'[^']*'|`[^`']*'|\"[^\"]*\"", "Q", s)
    s = re.sub(r"\d+", "N", s)
    return re.sub(r"[^A-Za-z0-9_.:%+<>=#-]+", "_", s).strip("_")[:70]


def signature(ctx, tree, x, cls):
    o = x["obs"]
    if cls == "Signalled":
        m = re.search(r"([A-Za-z_]+\.[ch]):\d+: ([A-Za-z_0-9]+): Assertion", o.get("err2", "") or o["first"])
        if m:
            return "assert:%s:%s" % (m.group(1), m.group(2)), o["err2"]
        site, txt = gdb_site(ctx, tree, x)
        return "crash:%s:%s" % (SIGNAMES.get(o["sig"], "SIG%d" % o["sig"]), site), txt
    if cls == "InternalError":
        m = re.search(r"internal error at ([A-Za-z_]+\.[ch]):(\d+)", o.get("err2", "") or o["first"])
        if m:
            return "internal:%s:%s" % (m.group(1), enclosing_function(tree, m.group(1), int(m.group(2)))), o["err2"]
        return "internal:" + norm_msg(o["first"]), o["err2"]
    if cls == "Timeout":
        site, txt = gdb_site(ctx, tree, x, hang=True)
        return "timeout:" + site, txt
    if cls == "Silent":
        return "silent", ""
    if cls == "BadLocation":
        kind = "noloc" if not o["hasloc"] else "file" if not o["fileok"] else "line%s" % ("0" if o["line"] < 1 else ">n")
        return "badline:%s:%s" % (kind, norm_msg(o["first"], [x.get("path", "")])), o["first"]
    if cls == "NoOutput":
        return "no-output", ""
    if cls == "AsRejected":
        return "as-rejects:" + norm_msg(re.sub(r"^.*?Error: ", "", o["aserr"].splitlines()[0] if o["aserr"] else "?")), o["aserr"]
    return "rejected-valid:%s:%s" % (x.get("cls", "seed"), norm_msg(o["msg"] or o["first"])), o["first"] + " / " + o["msg"]


# --------------------------------------------------------------------- run
def model_check(ctx, errors):
    try:
        ctx.tlc_expect_ok("robust", "Outcome", "Outcome_mc.cfg", "the outcome automaton reaches a forbidden terminal / the classifier disagrees with it", workers=1)
        ctx.tlc_expect_ok("robust", "Outcome", "Outcome_ctl.cfg", "the observation classifier disagrees with the (non-robust) automaton", workers=1)
        for p in ("NoForbidden", "ValidAccepted"):
            r = ctx.tlc("robust", "Outcome", "Outcome_ctl_%s.cfg" % p, workers=1, count=False)
            if r.ok:
                raise Infra("sensitivity control failed: TLC accepts a front end that may crash under %s" % p)
    except BaseException as e:
        errors.append(e)


def control_events(ctx):
    """doctored observations, one per forbidden terminal: OutcomeTrace must reject every one, with that class"""
    ok = dict(status=0, sig=0, tmo=False, internal=False, errempty=True, hasloc=False, fileok=False, line=0, nlines=3, out=True, **{"as": 0})
    diag = dict(ok, status=1, errempty=False, hasloc=True, fileok=True, line=2, out=False, **{"as": -1})
    bad = [("Signalled", dict(diag, status=0, sig=11, errempty=True, hasloc=False)),
           ("InternalError", dict(diag, internal=True, hasloc=False)),
           ("Silent", dict(diag, errempty=True, hasloc=False)),
           ("Timeout", dict(diag, tmo=True)),
           ("BadLocation", dict(diag, line=4)), ("BadLocation", dict(diag, line=0)), ("BadLocation", dict(diag, hasloc=False)),
           ("BadLocation", dict(diag, fileok=False)),
           ("NoOutput", dict(ok, out=False)), ("AsRejected", dict(ok, **{"as": 1})),
           ("Diagnosed", dict(diag))]                                   # a valid program that is diagnosed
    ins = [dict(must="accept" if c == "Diagnosed" else "any", obs=o, ctl=c) for c, o in bad]
    ins += [dict(must="any", obs=diag, ctl=None), dict(must="accept", obs=ok, ctl=None)]
    rej = tlc_validate(ctx, ins, "control", count=False)
    for i, x in enumerate(ins):
        if (x["ctl"] is None) != (i not in rej) or (x["ctl"] and rej[i] != x["ctl"]):
            raise Infra("sensitivity control failed: doctored observation %d (%s) -> %s" % (i, x["ctl"], rej.get(i)))


def corpus_inputs(ctx, tree):
    """programs of the supported language that must be Accepted: the C12 corpus minus seeds/edits"""
    import c12
    items = c12.make_corpus(ctx, tree, [])
    return [dict(path=it["path"], flags=it["flags"] + ["-I" + tree + "/include"], must="accept", cls=it["cls"], name=it["name"])
            for it in items if it["cls"] in ("own", "test", "layout", "expr")]


def big_inputs():
    """generated programs of the supported language with out-of-the-ordinary sizes (must be Accepted; gcc accepts each)"""
    P = {}
    P["long-string"] = 'char s[] = "' + "".join(chr(48 + (i * 7) % 43).replace("\\", "_") for i in range(65536)) + '";\nint n = sizeof s;\n'
    P["long-expr"] = "int f(int a, int b) { return " + " + ".join("a * %d - (b ^ %d)" % (i, i) for i in range(1500)) + "; }\n"
    P["deep-parens"] = "int f(int x) { return " + "(" * 400 + "x" + " + 1)" * 400 + "; }\n"
    P["deep-blocks"] = "int f(int x) { " + "{ x++; " * 300 + "}" * 300 + " return x; }\n"
    P["many-cases"] = "int f(int x) { switch (x) { " + " ".join("case %d: return %d;" % (i * 3, i) for i in range(2000)) + " } return -1; }\n"
    P["many-globals"] = "".join("int g%d = %d;\n" % (i, i) for i in range(5000))
    P["many-params"] = "int f(" + ", ".join("int p%d" % i for i in range(100)) + ") { return " + " + ".join("p%d" % i for i in range(100)) + "; }\nint g(void) { return f(" + ", ".join(str(i) for i in range(100)) + "); }\n"
    P["long-identifier"] = "int %s = 1; int f(void) { return %s; }\n" % ("x" * 4000, "x" * 4000)
    P["big-macro"] = "#define A x + 1 +\n#define B A A A A A A A A A A\n#define C B B B B B B B B B B\n#define D C C C C C C C C C C\nint f(int x) { return D D 0; }\n"
    P["many-locals"] = "int f(void) { " + " ".join("long v%d = %d;" % (i, i) for i in range(3000)) + " return v2999; }\n"
    P["long-initializer"] = "int a[] = { " + ", ".join(str(i) for i in range(20000)) + " };\n"
    P["many-strings"] = "char *t[] = { " + ", ".join('"s%d"' % i for i in range(5000)) + " };\n"
    P["else-if-chain"] = "int f(int x) { " + " else ".join("if (x == %d) return %d;" % (i, i) for i in range(800)) + " return 0; }\n"
    P["many-functions"] = "".join("static int f%d(int a) { return a + %d; }\n" % (i, i) for i in range(1500)) + "int main(void) { return " + " + ".join("f%d(1)" % i for i in range(0, 1500, 50)) + "; }\n"
    return [dict(name="big/" + k, text=v, must="accept", cls="big", seed="big/" + k, ed="id", flags=[]) for k, v in sorted(P.items())]


def judge(ctx, tree, inputs, label):
    run_inputs(ctx, tree, inputs, label)
    ctx.phase("%s: %d inputs run" % (label, len(inputs)))
    rej = tlc_validate(ctx, inputs, label)
    ctx.phase("%s: validated, %d rejected" % (label, len(rej)))
    ctx.cov["rejected_first_pass"] = ctx.cov.get("rejected_first_pass", 0) + len(rej)
    if rej:
        # a rejection must repeat: run the rejected inputs again (longer wall limit: the machine may be loaded)
        idx = sorted(rej)
        again = [dict((k, v) for k, v in inputs[i].items() if k not in ("obs", "id")) for i in idx]
        run_inputs(ctx, tree, again, label + "-again", wall=120)
        rej2 = tlc_validate(ctx, again, label + "-again", count=False)
        still = {idx[j]: c for j, c in rej2.items() if rej[idx[j]] == c}
        ctx.cov["rejections_not_repeated"] = ctx.cov.get("rejections_not_repeated", 0) + len(rej) - len(still)
        rej = still
    # signatures: one gdb run per crashing input, in parallel
    todo = sorted(rej)
    sigs = vt.pmap(lambda i: signature(ctx, tree, inputs[i], rej[i]), todo, workers=12)
    bysig = {}
    for i, (sig, detail) in zip(todo, sigs):
        bysig.setdefault(sig, []).append((i, detail))
    for sig in sorted(bysig):
        for i, detail in bysig[sig][:3]:
            x = inputs[i]
            ctx.report(sig, "%s: %s on input %s: %s" % (rej[i], sig, x.get("name"), (x.get("text") or x.get("path", ""))[:160].replace("\n", "\\n")),
                       case=dict(kind="input", name=x.get("name"), text=x.get("text"), enc=x.get("enc"), path=x.get("path"), flags=x.get("flags", []),
                                 source=None if "text" in x or x.get("cls") in ("own", "test") else open(x["path"], errors="replace").read()[:200000],
                                 must=x["must"], cls=rej[i], obs={k: x["obs"][k] for k in OBS_KEYS + ("first", "msg", "aserr")}, detail=detail[-1200:]))
        for i, detail in bysig[sig][3:]:
            ctx.report(sig, "", case=dict(kind="input"))
    ctx.cov.setdefault("sites", {})
    for sig, l in bysig.items():
        ctx.cov["sites"][sig] = ctx.cov["sites"].get(sig, 0) + len(l)
    return rej


def run(ctx):
    q = ctx.quick
    errors = []
    th = threading.Thread(target=model_check, args=(ctx, errors))
    th.start()
    tree = ctx.build()
    seeds = load_seeds()
    rows = gen_edits(ctx, seeds, int(os.environ.get("C13_STRIDE", 24 if q else 1)), int(os.environ.get("C13_PAIRSTRIDE", 100 if q else 4)),
                     int(os.environ.get("C13_TAILSTRIDE", 8 if q else 1)))
    ctx.phase("edits enumerated (%d)" % len(rows))
    inputs = []
    for s in seeds:
        inputs.append(dict(name=s["name"], text=render(s["toks"]), must="accept" if s["valid"] else "any", cls="seed", seed=s["name"], ed="id",
                           flags=s["flags"]))
    for r in rows:
        if r["s"] == 0 and r["zs"]["z"]:
            zs = r["zs"]
            if zs["c"] <= NVALCTX and zs["z"] > NZSTRUCT:
                raise Infra("Edits.tla emitted an array type in a by-value context: %s" % zs)
            nm = zero_name(zs)
            inputs.append(dict(name=nm, text=zero_text(zs["z"], zs["c"], zs["p"]), must="any", cls="zero", seed=nm, ed="id", flags=["-I" + tree + "/include"]))
            continue
        if r["s"] == 0:
            rd = r["rd"]
            nm = "redecl/%s+%s@%d" % (KIND_NAMES[rd["a"]], KIND_NAMES[rd["b"]], rd["sc"])
            inputs.append(dict(name=nm, text=redecl_text(rd), must="any", cls="redecl", seed=nm, ed="id", flags=[]))
            continue
        s = seeds[r["s"] - 1]
        if len(r["ed"]) == 1 and apply_edit(s["toks"], r["ed"][0]) != [s["toks"][j - 1] if j > 0 else ALPHABET[-j - 1] for j in r["r"]]:
            raise Infra("harness apply_edit disagrees with Edits.tla Apply on %s" % r)
        inputs.append(dict(name="%s~%s" % (s["name"], edit_name(r["ed"], r.get("tail"))), text=text_of(s, r["r"], r.get("tail")), must="any",
                           cls="edit", seed=s["name"], ed=r["ed"], flags=s["flags"]))
    inputs += corpus_inputs(ctx, tree)
    inputs += big_inputs()
    import c12
    # every lexer context x every byte (the C12 garbage-in family): each must be Accepted or Diagnosed
    inputs += [dict(name=n, text=b.decode("latin-1"), enc="latin-1", must="any", cls="lex", seed=n.rsplit("-", 1)[0], ed="id", flags=[])
               for n, b in vt.subsample(c12.lex_files(), ctx.seed, 4 if q else 1)]
    control_events(ctx)
    rej = judge(ctx, tree, inputs, "main")
    for i, x in enumerate(inputs):
        o = x["obs"]
        cls = rej.get(i) or ("Accepted" if o["status"] == 0 and not o["sig"] else "Diagnosed")
        ctx.note_case("%s|%s|%s" % (x.get("seed", x.get("name")), cls, norm_msg(o["msg"])), nontrivial=x["cls"] != "seed")
    ctx.cov["traces_validated_against_impl"] += len(inputs)
    ctx.cov["inputs"] = dict(seeds=len(seeds), edits=len(rows), pairs=len([1 for r in rows if len(r["ed"]) == 2]),
                             zero_sized=len([1 for x in inputs if x["cls"] == "zero"]),
                             must_accept=len([1 for x in inputs if x["must"] == "accept"]),
                             accepted=len([1 for x in inputs if x["obs"]["status"] == 0 and not x["obs"]["sig"] and not x["obs"]["tmo"]]))
    for x in inputs[len(seeds):: max(1, len(rows) // 5)][:5]:
        ctx.sample(dict(input=x["name"], text=(x.get("text") or x.get("path"))[:300], observation={k: x["obs"][k] for k in OBS_KEYS + ("first", "msg")}))
    th.join()
    if errors:
        raise errors[0]
    ctx.assumptions += [
        "lines(file) counts the position after the final newline (the EOF token's line) as a line; a missing final newline is supplied first, as the compiler does",
        "the time limit is 5 s of CPU time (RLIMIT_CPU) and 30 s wall; output beyond 64 MB counts as a hang",
        "when the input contains a #line directive the reported line is a presumed line and only its presence is judged (C18 judges presumed positions)",
        "for edited inputs that contain an asm statement the assembler's verdict is not judged (the asm text is the user's)",
        "only the first line of stderr is judged for the location (warnings printed before an error carry a location too)",
        "the front end is run as `chibicc -cc1` directly; the driver's signal -> exit 1 mapping is exercised by C14",
        "inputs are token-level edits of the seeds rendered with single spaces; byte-level garbage (NUL bytes, invalid UTF-8, very long lines) is outside the enumerated domain"]
    return ctx.finish(
        rule="input = one state of Edits.tla: (seed, single edit Delete/Replace/Insert/Dup/Swap with a token of the 68-token alphabet) or a pair of edits for seeds of <= 6 tokens, "
             "plus the end-of-file, redeclaration and zero-sized families (type of size 0 x context x position), the seeds themselves and the must-accept corpus (own sources, test/*.c, layout programs); each is run through chibicc -cc1 (+ as) and its observation is one event "
             "validated by TLC against OutcomeTrace.tla; quick = VERIF_SEED-selected 1/Stride of the closed domain; non-trivial = a real edit or corpus program (not an unedited seed); "
             "distinct = distinct (seed, terminal class, normalised diagnostic message)",
        exhaustive=not q)


def replay(ctx, path):
    c = json.load(open(os.path.join(path, "case.json")))
    c = c.get("case") or c
    tree = ctx.build()
    x = dict(name=c.get("name"), must=c.get("must", "any"), cls="replay", flags=c.get("flags") or [])
    name = c.get("name") or ""
    if c.get("enc"):
        x["enc"] = c["enc"]
    if c.get("text") is not None:
        x["text"] = c["text"]
    elif name.startswith(("own/", "test/")):          # a file of the tree under test: take it from the current tree
        x["path"] = os.path.join(tree, name[4:] if name.startswith("own/") else name)
        x["flags"] = ["-I" + tree + "/test", "-I" + tree, "-I" + tree + "/include"]
    else:
        x["text"] = c.get("source") or open(c["path"]).read()
        x["flags"] = ["-I" + tree + "/include"]
    judge(ctx, tree, [x], "replay")
    ctx.cov["traces_validated_against_impl"] += 1
    return ctx.finish(rule="replay of one recorded case")


def zero_oracle(cc):
    """development-time validation of the zero-sized family's Level A against a reference compiler: every member must
    compile, and those with a main() must exit 0; prints the members for which that is not so"""
    import subprocess, tempfile
    d = tempfile.mkdtemp(prefix="c13-zero-")
    bad = 0
    dom = [(z, c, p) for z in range(1, NZ + 1) for c in range(1, NCTX + 1) for p in (1, 2, 3) if c > NVALCTX or z <= NZSTRUCT]
    for z, c, p in dom:
        t = zero_text(z, c, p)
        f = "%s/z.c" % d
        open(f, "w").write(t)
        link = "int main" in t
        r = subprocess.run([cc, "-w", "-std=gnu11", "-o", d + "/z.out"] + ([] if link else ["-c"]) + [f], capture_output=True, text=True, timeout=120)
        st = "compile:%d" % r.returncode
        if r.returncode == 0 and link:
            st += " run:%d" % subprocess.run([d + "/z.out"], timeout=20).returncode
        if st not in ("compile:0", "compile:0 run:0"):
            bad += 1
            print(zero_name(dict(z=z, c=c, p=p)), st, r.stderr[:200].replace("\n", " | "))
    print("%d members, %d not accepted / not running to 0 by %s" % (len(dom), bad, cc))
    import shutil
    shutil.rmtree(d, ignore_errors=True)


if __name__ == "__main__":
    if len(sys.argv) == 3 and sys.argv[1] == "--worker":
        worker_main(sys.argv[2])
    if len(sys.argv) == 3 and sys.argv[1] == "--zero-oracle":
        zero_oracle(sys.argv[2])
