"""C13 - every input is answered with output or a located diagnostic.

Level claimed: exploration (DESIGN 5, C13): a thin TLA+ outcome monitor, a
systematically enumerated input space.

1. TLC: tla/robust/Outcome.tla - the front end as a pipeline automaton
   tokenize -> preprocess -> parse -> codegen -> write -> as; terminal states
   Accepted / Diagnosed(file, line); forbidden terminals Signalled,
   InternalError, Silent, Timeout, BadLocation, NoOutput, AsRejected.  Model
   checked (the observation classifier agrees with the automaton on every path);
   sensitivity control: a front end whose stages may crash (Robust = FALSE) must
   be rejected.
2. TLC enumerates the input space (tla/robust/Edits.tla): for every seed token
   sequence all single edits Delete(i) Replace(i,t) Insert(i,t) Dup(i) Swap(i),
   t from a 64-token alphabet, and pairs of edits for short seeds; quick =
   VERIF_SEED-selected 1/Stride of that closed domain.  TLC emits the edited
   sequence itself (seed token indices / alphabet indices); the harness only
   renders it.  Families without a seed: the byte-level end-of-file family, the redeclaration
   family and the zero-sized family (an object type of size 0 x every context an object or a
   value can appear in x position; all 360 members in every tier).
3. Every input is run through `chibicc -cc1 -cc1-input F -cc1-output O F` (wait
   status visible) under a 5 s limit, then `as` on the output if exit 0; the
   observation {status, signal, first stderr line, output exists, as status} is
   one event validated by TLC against tla/robust/OutcomeTrace.tla, which rejects
   every forbidden terminal.  Valid seeds and the valid C12 corpus must be
   Accepted.
4. The driver layer (fifth round): tla/robust/Propagate.tla - the driver runs cc1, as, ld as children and must
   answer every end of a child other than exit status 0 (exit n, killed by a signal; before or after the child
   has done its work) with a non-zero status of its own.  The fate family of Edits.tla (child x mode x end x
   when) is replayed into the REAL driver: harness/c/c13_fate.c stands in for the three children (found through
   PATH / argv[0], chibicc unmodified), ends as told or delegates to the real tool; each run is one `drv` event
   validated against PropagateTrace.tla.
5. Families added in the fifth round besides: what else stands on the diagnosed line (every UTF-8 well- and
   ill-formedness class inside a comment / string / character constant in front of the offending token of every
   invalid seed), the operand types of the atomic builtins and operators, a type-qualifier-list in every position
   the grammar has one.
Findings are keyed by crash site (top in-tree frame of gdb's backtrace /
assertion text / internal-error location), not by input.
"""
import glob, hashlib, json, os, re, sys, threading, time
sys.path.insert(0, os.path.dirname(os.path.abspath(__file__)))
import vt
from vt import Infra

LEVEL = "exploration"
SEEDS = os.path.join(vt.VERIF, "seeds")

# the edit alphabet (Edits.tla works on its indices 1..NAlpha).  "\n#..." tokens start a new line.
ALPHABET = ["int", "char", "void", "long", "unsigned", "double", "struct", "union", "enum", "typedef", "static", "extern",
            "const", "return", "if", "else", "for", "while", "do", "switch", "case", "default", "break", "goto",
            "sizeof", "_Alignof", "_Generic", "x", "f", "T", "0", "1", "1.5", "'a'", '"s"',
            "(", ")", "{", "}", "[", "]", ";", ",", ":", "?", ".", "->", "...", "=", "+", "-", "*", "/", "%", "&", "<",
            "==", "&&", "++", "#", "##", "\n#define", "\n#include", "\n#if", "\n#endif\n", "__attribute__", "asm", "\n"]

TOKEN_RE = re.compile(r'''
    (?P<nl>\n)
  | (?P<ws>[ \t\r\f\v]+)
  | (?P<lc>//[^\n]*)
  | (?P<bc>/\*.*?\*/)
  | (?P<str>(?:u8|u|U|L)?"(?:\\.|[^"\\\n])*")
  | (?P<chr>(?:u|U|L)?'(?:\\.|[^'\\\n])*')
  | (?P<num>\.?[0-9](?:[eEpP][+-]|[0-9a-zA-Z_.])*)
  | (?P<id>[A-Za-z_$][A-Za-z0-9_$]*)
  | (?P<punct><<=|>>=|\.\.\.|==|!=|<=|>=|->|\+=|-=|\*=|/=|\+\+|--|%=|&=|\|=|\^=|&&|\|\||<<|>>|\#\#|.)
''', re.X | re.S)


HEADER_RE = re.compile(r'[ \t]*(<[^>\n]*>|"[^"\n]*")')


def tokenize(text):
    """A simple C tokenizer for the seeds.  Newline tokens are kept only if the text has directives; a
    header-name after #include and `NAME(` after #define (a function-like macro's lparen must not be
    preceded by white space) are single tokens, as in the C grammar."""
    keepnl = re.search(r"(?m)^\s*#", text) is not None
    toks, pos = [], 0
    while pos < len(text):
        if toks[-2:] == ["#", "include"]:
            m = HEADER_RE.match(text, pos)
            if m:
                toks.append(m.group(1))
                pos = m.end()
                continue
        m = TOKEN_RE.match(text, pos)
        pos = m.end()
        k = m.lastgroup
        if k in ("ws", "lc", "bc"):
            continue
        if k == "nl":
            if keepnl and toks and toks[-1] != "\n":
                toks.append("\n")
            continue
        t = m.group()
        if k == "id" and toks[-2:] == ["#", "define"] and text[pos:pos + 1] == "(":
            t, pos = t + "(", pos + 1
        toks.append(t)
    while toks and toks[-1] == "\n":
        toks.pop()
    return toks


def render(toks):
    out = []
    for t in toks:
        if t.startswith("\n") or (out and out[-1].endswith("\n")):
            out.append(t)
        else:
            out.append((" " if out else "") + t)
    s = "".join(out)
    return s if s.endswith("\n") else s + "\n"


def apply_edit(toks, e):
    """Edits.tla Apply: i is 1-based; Insert(i) inserts before position i (i = n+1 appends)."""
    k, i = e["k"], e["i"]
    t = ALPHABET[e["t"] - 1] if e.get("t") else None
    s = list(toks)
    if k == "del":
        return s[:i - 1] + s[i:]
    if k == "rep":
        return s[:i - 1] + [t] + s[i:]
    if k == "ins":
        return s[:i - 1] + [t] + s[i - 1:]
    if k == "dup":
        return s[:i] + [s[i - 1]] + s[i:]
    if k == "swap":
        return s[:i - 1] + [s[i], s[i - 1]] + s[i + 1:]
    if k == "id":
        return s
    raise ValueError(k)


def load_seeds():
    seeds = []
    for sub in ("valid", "invalid"):
        for f in sorted(glob.glob("%s/%s/*.c" % (SEEDS, sub))):
            text = open(f).read()
            flags = []
            m = re.match(r"//@cc1:([^\n]*)\n", text)        # an option-carrying seed: extra cc1 options on the first line
            if m:
                import shlex
                flags, text = shlex.split(m.group(1)), text[m.end():]
            toks = tokenize(text)
            seeds.append(dict(name="%s-%s" % (sub[0], os.path.basename(f)[:-2]), valid=sub == "valid", text=text, toks=toks, path=f, flags=flags,
                              dir="\n" in toks or bool(flags)))          # several lines (directives) / carries options
    if len(seeds) < 50:
        raise Infra("only %d seeds under %s" % (len(seeds), SEEDS))
    return seeds


# ------------------------------------------------------------------ inputs
def gen_edits(ctx, seeds, stride, pairstride, tailstride, pairmax=6, prefstride=0, atomstride=1, fatestride=1):
    sf = os.path.join(ctx.scratch, "seedlens.ndjson")
    vt.write_ndjson(sf, [dict(n=len(s["toks"]), d=1 if s["dir"] else 0) for s in seeds])
    nvalid = len([1 for s in seeds if s["valid"]])
    if any(s["valid"] for s in seeds[nvalid:]):
        raise Infra("seeds are not ordered valid first")
    out = os.path.join(ctx.scratch, "edits.ndjson")
    if os.path.exists(out):
        os.unlink(out)
    pt = sorted(ALPHABET.index(t) + 1 for t in ("int", "x", "(", ")", "{", "}", ";"))
    cfg = ctx.cfg("robust", "Edits.cfg", NAlpha=len(ALPHABET), PairMax=pairmax, PairTok="{%s}" % ",".join(map(str, pt)),
                  Seed=ctx.seed, Stride=stride, PairStride=pairstride, TailStride=tailstride, NDir=len(DIRS), NEnd=len(ENDS),
                  NZ=NZ, NZStruct=NZSTRUCT, NCtx=NCTX, NValCtx=NVALCTX,
                  FtExit="{%s}" % ",".join(map(str, FT_EXIT)), FtSignals="{%s}" % ",".join(map(str, sorted(FT_SIGNALS))),
                  FateStride=fatestride, NValid=nvalid, NCont=len(CONTAINERS), NLead=len(LEADS), NContByte=len(CONTS), PrefStride=prefstride,
                  NAType=len(ATYPES), NAForm2=NAFORM2, NAForm=NAFORM, AtomStride=atomstride, NQual=len(QUALS), NQPos=len(QPOS))
    g = ctx.tlc("robust", "Edits", cfg, env=dict(SEEDS=sf, OUT=out), workers=4, timeout=1500, heap="6g")
    if not g.ok:
        raise Infra("Edits.tla: %s\n%s" % (g.violated, g.trace_text()[:1500]))
    rows = vt.read_ndjson(out)
    if len(rows) < 100:
        raise Infra("edit enumerator wrote only %d inputs" % len(rows))
    rows.sort(key=lambda r: json.dumps(r, sort_keys=True))
    return rows


# the byte-level end-of-file family (Edits.tla Tails): trailing directive lines and endings
DIRS = ["#if 1\n#endif", "#pragma once", "#include <stddef.h>", "#define X", "#line 3", "#error x", "#undef X", "#ifdef X\n#else\n#endif"]
ENDS = ["", "\n", "\\\n", "\\", "\r\n", "\r", "\\\r\n", " ", "/*", "//x", "\"", "'"]


# the redeclaration family (Edits.tla Redecls): one identifier, two declarations of kinds a and b, scope arrangement sc
KINDS = {1: "enum { X };", 2: "typedef int X;", 3: "int X;", 4: "int X = 1;", 5: "int X(void);", 6: "int X(void) { return 0; }",
         7: "struct X { int a; };", 8: "X: ;"}
KIND_NAMES = {1: "enumerator", 2: "typedef", 3: "object", 4: "object-init", 5: "function-decl", 6: "function-def", 7: "tag", 8: "label", 9: "parameter"}


def redecl_text(rd):
    a, b, sc = rd["a"], rd["b"], rd["sc"]
    A, B = KINDS.get(a, ""), KINDS[b]
    if sc == 1:
        return "%s\n%s\n" % (A, B)
    if sc == 2:
        return "void f(void) { %s %s }\n" % (A, B)
    if sc == 3:
        return "%s\nvoid f(void) { %s }\n" % (A, B)
    if sc == 4:
        return "void f(int X) { %s }\n" % B
    return "void f(void) { %s { %s } }\n" % (A, B)


# the zero-sized family (Edits.tla Zeros): an object type of size 0 (z) in every context an object or a value can appear in (c),
# at position / in variant p.  Every program with a main() checks itself (exit status 0), so that the family can be validated
# against gcc as a whole: `python3 harness/c13.py --zero-oracle gcc` (development time; gcc accepts and runs every member
# correctly except pointer-arith.3, which it rejects: "arithmetic on pointer to an empty aggregate").  C13 judges the outcome
# class only; the values belong to C06.
ZTYPES = {1: "typedef struct {} Z;", 2: "typedef union {} Z;", 3: "typedef struct { int a[0]; } Z;",
          4: "typedef struct { struct {} i; } Z;", 5: "typedef struct { struct {} i[2]; double d[0]; } Z;",
          6: "typedef struct { int : 0; } Z;", 7: "typedef int Z[0];", 8: "typedef struct {} Z[3];"}
ZNAMES = {1: "empty-struct", 2: "empty-union", 3: "struct-of-int0", 4: "struct-of-empty", 5: "struct-of-empty-array", 6: "struct-of-zero-width",
          7: "array-int0", 8: "array-of-empty"}
CNAMES = {1: "param", 2: "arg-extern", 3: "return", 4: "member-by-value", 5: "assign", 6: "cond-comma-stmtexpr", 7: "variadic-arg", 8: "va_arg",
          9: "variadic-callee-named", 10: "register-exhaustion", 11: "compound-literal", 12: "indirect-call",
          13: "local", 14: "global", 15: "sizeof", 16: "element", 17: "member-init", 18: "pointer-arith"}
NZ, NZSTRUCT, NCTX, NVALCTX = 8, 6, 18, 12


def _ins(items, p, z):
    """the three-slot list with z at position p (1..3)"""
    l = list(items)
    l.insert(p - 1, z)
    return l


def zero_text(z, c, p):
    T = ZTYPES[z] + "\n"
    arr = z > NZSTRUCT
    if c == 1:
        ps, as_ = _ins(["int x", "double d"], p, "Z e"), _ins(["3", "1.0"], p, "e")
        return T + "int f(%s) { return x + (int)d; }\nint main(void) { Z e; return f(%s) - 4; }\n" % (", ".join(ps), ", ".join(as_))
    if c == 2:
        ps, as_ = _ins(["int", "double"], p, "Z"), _ins(["3", "1.0"], p, "e")
        return T + "int g(%s);\nint h(void) { Z e; return g(%s); }\n" % (", ".join(ps), ", ".join(as_))
    if c == 3:
        if p == 1:
            return T + "Z r(int x) { Z e; return e; }\nint main(void) { Z e = r(1); r(2); return 0; }\n"
        if p == 2:
            return T + "Z r(int x) { return (Z){}; }\nint f(Z e, int x) { return x; }\nint main(void) { return f(r(1), 3) - 3; }\n"
        return T + "Z r(int x) { Z e; return e; }\nint main(void) { Z (*fp)(int) = r; Z e; e = fp(1); return 0; }\n"
    if c == 4:
        ms = _ins(["int a;", "double b;"], p, "Z z;")
        return T + "struct W { %s };\nstruct W id(struct W w) { return w; }\nint main(void) { struct W w; w.a = 3; w.b = 1.0; struct W v = id(w); return v.a + (int)v.b - 4; }\n" % " ".join(ms)
    if c == 5:
        body = {1: "Z a, b; a = b;", 2: "Z a, b, c; a = b = c;", 3: "Z a, b; Z *q = &a; *q = b; b = *q;"}[p]
        return T + "int main(void) { %s return 0; }\n" % body
    if c == 6:
        body = {1: "Z a, b; int c = 0; Z d = c ? a : b;", 2: "Z a; int c = 1; Z d = (c++, a); c -= 2;", 3: "Z a; int c = 0; Z d = ({ c; a; });"}[p]
        return T + "int main(void) { %s (void)&d; return c; }\n" % body
    if c == 7:
        as_ = _ins(["5", "2.0"], p, "e")
        return T + "int v(int n, ...);\nint h(void) { Z e; return v(3, %s); }\n" % ", ".join(as_)
    if c == 8:
        get = _ins(["int k = va_arg(ap, int);", "double d = va_arg(ap, double);"], p, "Z e = va_arg(ap, Z);")
        as_ = _ins(["5", "2.0"], p, "e")
        return "#include <stdarg.h>\n" + T + "int v(int n, ...) { va_list ap; va_start(ap, n); %s va_end(ap); (void)&e; return n + k + (int)d; }\nint main(void) { Z e; return v(3, %s) - 10; }\n" % (" ".join(get), ", ".join(as_))
    if c == 9:
        ps, as_ = _ins(["int n", "double d"], p, "Z e"), _ins(["3", "1.0"], p, "e")
        return "#include <stdarg.h>\n" + T + "int v(%s, ...) { va_list ap; va_start(ap, %s); int k = va_arg(ap, int); double q = va_arg(ap, double); va_end(ap); return n + (int)d + k + (int)q; }\nint main(void) { Z e; return v(%s, 5, 2.0) - 11; }\n" % (
            ", ".join(ps), ps[-1].split()[-1], ", ".join(as_))
    if c == 10:
        if p == 1:
            ps = ["int a%d" % i for i in range(1, 7)] + ["Z e", "int a7"]
            as_ = [str(i) for i in range(1, 7)] + ["e", "7"]
            ret, exp = "a1 + a6 + a7", 14
        elif p == 2:
            ps = ["double d%d" % i for i in range(1, 9)] + ["Z e", "double d9"]
            as_ = ["%d.0" % i for i in range(1, 9)] + ["e", "9.0"]
            ret, exp = "(int)(d1 + d8 + d9)", 18
        else:
            ps = ["int a%d" % i for i in range(1, 8)] + ["Z e", "int a8", "Z g", "long double l"]
            as_ = [str(i) for i in range(1, 8)] + ["e", "8", "e", "9.0L"]
            ret, exp = "a1 + a7 + a8 + (int)l", 25
        return T + "int f(%s) { return %s; }\nint main(void) { Z e; return f(%s) - %d; }\n" % (", ".join(ps), ret, ", ".join(as_), exp)
    if c == 11:
        body = {1: "return f((Z){}, 3) - 3;", 2: "Z e = (Z){}; return f(e, 0);", 3: "Z e; e = (Z){}; Z *q = &(Z){}; e = *q; return f(e, 0);"}[p]
        return T + "int f(Z e, int x) { return x; }\nint main(void) { %s }\n" % body
    if c == 12:
        if p == 1:
            return T + "int k();\nint h(void) { Z e; return k(e, 3); }\n"
        if p == 2:
            return T + "int f(Z e, int x) { return x; }\nint main(void) { int (*fp)(Z, int) = f; Z e; return fp(e, 3) - 3; }\n"
        return T + "int f(Z e, int n) { return n ? f(e, n - 1) : 0; }\nint main(void) { Z e; return f(e, 3); }\n"
    if c == 13:
        body = {1: "Z e; Z *q = &e;", 2: "static Z e; Z *q = &e;", 3: "Z e = {}; Z *q = &e;"}[p]
        return T + "int main(void) { %s return q == 0; }\n" % body
    if c == 14:
        decl = {1: "Z g;", 2: "Z g = {};", 3: "static Z g; extern Z x;"}[p]
        return T + decl + "\nZ *q = &g;\nint main(void) { return q == 0; }\n"
    if c == 15:
        body = {1: "int n = sizeof(Z);", 2: "Z e; int n = sizeof e + sizeof(e);", 3: "char b[sizeof(Z) + 1]; int n = sizeof b - 1 + (_Alignof(Z) == 0);"}[p]
        return T + "int main(void) { %s return n; }\n" % body
    if c == 16:
        body = {1: "Z a[3]; Z *q = &a[1]; int n = sizeof a;", 2: ("Z a[3]; Z *q = &a[2]; int n = sizeof a[1];" if arr else "Z a[3]; a[1] = a[2]; Z *q = &a[0]; int n = sizeof a[1];"),
                3: "int m = 2; Z a[m][2]; Z *q = &a[1][1]; int n = sizeof a;"}[p]
        return T + "int main(void) { %s return n + (q == 0); }\n" % body
    if c == 17:
        if p == 1:
            return T + "struct W { int a; Z z; int b; } w = { 1, {}, 2 };\nint main(void) { return w.a + w.b - 3; }\n"
        if p == 2:
            return T + "struct W { int a; Z z; int b; } w = { .b = 2, .z = {}, .a = 1 };\nint main(void) { return w.a + w.b - 3; }\n"
        return T + "struct W { int a; Z z; int b; };\nint main(void) { struct W w = { 1, {}, 2 }; struct W v = (struct W){ .z = {}, .b = 2 }; return w.a + w.b + v.a + v.b - 5; }\n"
    if c == 18:
        body = {1: "Z *r = q + 1; int n = r == 0;", 2: "q++; Z *r = &q[1]; int n = r == 0;", 3: "long n = &a[1] - &a[1]; n = 0;"}[p]
        return T + "int main(void) { Z a[2]; Z *q = a; %s return (int)n; }\n" % body
    raise ValueError(c)


def zero_name(zs):
    return "zero/%s.%s.%d" % (ZNAMES[zs["z"]], CNAMES[zs["c"]], zs["p"])


# the fate family (Edits.tla Fates, Propagate.tla): how a child of the driver ends.  The sets are the spec's constants.
FT_EXIT = [1, 2, 3, 126, 127, 128, 255]
FT_SIGNALS = {1: "HUP", 2: "INT", 3: "QUIT", 4: "ILL", 6: "ABRT", 7: "BUS", 8: "FPE", 9: "KILL", 11: "SEGV", 13: "PIPE", 14: "ALRM", 15: "TERM",
              24: "XCPU", 25: "XFSZ", 31: "SYS"}
FT_CHILD = {0: "none", 1: "cc1", 2: "as", 3: "ld"}
FT_MODE = {1: ["-E", "-o", "out.i"], 2: ["-S", "-o", "out.s"], 3: ["-c", "-o", "out.o"], 4: ["-o", "out.exe"]}


def fate_name(ft):
    if ft["how"] == "ok":
        return "fate/clean@%s" % FT_MODE[ft["md"]][-1][4:]
    return "fate/%s-%s%s-%s@%s" % (FT_CHILD[ft["ch"]], ft["how"], FT_SIGNALS[ft["n"]] if ft["how"] == "signal" else ft["n"], ft["w"], FT_MODE[ft["md"]][-1][4:])


# the prefix family (Edits.tla Prefixed): what else stands on the diagnosed line.  Byte strings = one lead byte + 0..3 continuation bytes.
LEADS = [0x80, 0xBF, 0xC0, 0xC2, 0xDF, 0xE0, 0xE2, 0xED, 0xEF, 0xF0, 0xF4, 0xF5, 0xFF, 0x7F]
CONTS = [0x80, 0xA0, 0xBF]
CONTAINERS = {1: (b"/* ", b"x */ "), 2: (b'char *q__ = "', b'x"; '), 3: (b"int c__ = '", b"'; ")}
CONTAINER_NAMES = {1: "comment", 2: "string", 3: "char"}


def fresh_line_starts(b):
    """offsets at which a line of the byte string b starts outside a comment / literal and is not the continuation of a spliced line"""
    out, i, n, st = [], 0, len(b), "code"
    fresh = True
    while i < n:
        if fresh and st == "code":
            out.append(i)
        fresh = False
        while i < n and b[i:i + 1] != b"\n":
            c = b[i:i + 1]
            if st == "code":
                if b[i:i + 2] == b"//":
                    st = "line"
                elif b[i:i + 2] == b"/*":
                    st, i = "block", i + 1
                elif c in (b'"', b"'"):
                    st = c
            elif st == "block":
                if b[i:i + 2] == b"*/":
                    st, i = "code", i + 1
            elif st in (b'"', b"'"):
                if c == b"\\":
                    i += 1
                elif c == st:
                    st = "code"
            i += 1
        i += 1          # the newline
        spliced = b[max(0, i - 2):i - 1] == b"\\" or b[max(0, i - 3):i - 1] == b"\\\r"
        if st == "line" and not spliced:
            st = "code"
        if st in (b'"', b"'") and not spliced:
            st = "code"          # an unterminated literal ends with its line
        fresh = not spliced
    return out


def prefix_bytes(px):
    seq = bytes([LEADS[px["b"] - 1]] + [CONTS[c - 1] for c in px["cs"]])
    a, z = CONTAINERS[px["c"]]
    return a + seq + z


def prefixed_text(seed, px):
    """-> the input as a latin-1 string (byte-exact): the host's rendering with the container in front"""
    host = render(seed["toks"]).encode("utf-8")
    pre = prefix_bytes(px)
    if px["c"] != 1:
        if seed["dir"]:
            raise Infra("Edits.tla emitted a one-line container on a host with directives: %s" % seed["name"])
        return (pre + host).decode("latin-1")
    out, last = [], 0
    for o in fresh_line_starts(host):
        out.append(host[last:o])
        out.append(pre)
        last = o
    out.append(host[last:])
    return b"".join(out).decode("latin-1")


def prefix_name(seed, px):
    return "prefix/%s.%02x%s~%s" % (CONTAINER_NAMES[px["c"]], LEADS[px["b"] - 1], "".join("%02x" % CONTS[c - 1] for c in px["cs"]), seed["name"])


# the atomic-operand family (Edits.tla Atoms): operand types of the atomic builtins and operators
APRE = ("enum E { EA }; struct S0 {}; struct S1 { char a; }; struct S2 { short a; }; struct S3 { char a[3]; }; struct S4 { int a; }; "
        "struct S8 { long a; }; struct S16 { long a, b; }; union U4 { int a; float f; }; typedef int *PT; typedef int A4[4]; typedef int F(void); "
        "struct I; struct B { int a : 3; } b;\n")
ATYPES = [("bool", "_Bool"), ("char", "char"), ("short", "short"), ("int", "int"), ("long", "long"), ("float", "float"), ("double", "double"),
          ("ldouble", "long double"), ("pointer", "PT"), ("enum", "enum E"), ("struct0", "struct S0"), ("struct1", "struct S1"), ("struct2", "struct S2"),
          ("struct3", "struct S3"), ("struct4", "struct S4"), ("struct8", "struct S8"), ("struct16", "struct S16"), ("union4", "union U4"),
          ("array", "A4"), ("function", "F"), ("void", "void"), ("incomplete", "struct I"), ("bitfield", None)]
AFORMS = {1: "cas-new", 2: "exch-new", 3: "cas-old", 4: "cas-object-for-address", 5: "exch-object-for-address", 6: "op-assign", 7: "post-inc", 8: "pre-dec",
          9: "fetch_add", 10: "atomic_exchange", 11: "compare_exchange", 12: "load-store", 13: "atomic_init"}
NAFORM2, NAFORM = 3, 13
# standard forms x types that are C11 programs of the supported language (gcc accepts each: `python3 harness/c13.py --atom-oracle gcc`) and must be Accepted
A_ARITH = {"bool", "char", "short", "int", "long", "enum", "pointer"}


def _param(t, name):
    """(parameter declaration or None, address expression, value expression) of an operand of type no. t"""
    nm, sp = ATYPES[t - 1]
    if sp is None:
        return None, "&b.a", "b.a"
    if nm == "void":
        return "void *%s" % name, name, "(void)0"
    return "%s *%s" % (sp, name), name, "*" + name


def atom_text(f, t, u):
    def fn(ret, params, body):
        ps = [x for x in params if x]
        return APRE + "%s f(%s) { %s }\n" % (ret, ", ".join(ps) or "void", body)
    pt, at_, vt_ = _param(t, "p")
    po, ao, _ = _param(t, "o")
    if f == 1:
        pu, _, vu = _param(u, "v")
        return fn("int", [pt, po, pu], "return __builtin_compare_and_swap(%s, %s, %s);" % (at_, ao, vu))
    if f == 2:
        pu, _, vu = _param(u, "v")
        return fn("void", [pt, pu], "__builtin_atomic_exchange(%s, %s);" % (at_, vu))
    if f == 3:
        pu, au, _ = _param(u, "o")
        return fn("int", [pt, pu], "return __builtin_compare_and_swap(%s, %s, 1);" % (at_, au))
    if f == 4:
        return fn("int", [pt, po], "return __builtin_compare_and_swap(%s, %s, 1);" % (vt_, ao))
    if f == 5:
        return fn("void", [pt], "__builtin_atomic_exchange(%s, 1);" % vt_)
    nm, sp = ATYPES[t - 1]
    if sp is None:
        decl, X = "struct { _Atomic int a : 3; } x; int y, z;\n", "x.a"
    else:
        decl, X = "_Atomic %s x; %s y, z;\n" % (sp, sp), "x"
    body = {6: "%s += 1;", 7: "%s++;", 8: "--%s;", 9: "atomic_fetch_add(&%s, 1);", 10: "atomic_exchange(&%s, y);",
            11: "return atomic_compare_exchange_strong(&%s, &z, y);", 12: "y = atomic_load(&%s); atomic_store(&%s, z);", 13: "atomic_init(&%s, y);"}[f]
    body = body.replace("%s", X)
    return ("#include <stdatomic.h>\n" if f >= 9 else "") + APRE + decl + "%s f(void) { %s }\n" % ("int" if f == 11 else "void", body)


def atom_must(f, t):
    """the standard forms on the arithmetic and pointer types of 1, 2, 4, 8 bytes are programs of the supported language"""
    nm = ATYPES[t - 1][0]
    if f < 6 or nm not in A_ARITH:
        return "any"
    if nm == "bool" and f in (8, 9):          # --b / atomic_fetch_add on an atomic _Bool: not C
        return "any"
    if nm == "enum" and f in (9,):
        return "any"
    return "accept"


def atom_name(at):
    return "atom/%s.%s%s" % (AFORMS[at["f"]], ATYPES[at["t"] - 1][0], "+" + ATYPES[at["u"] - 1][0] if at["u"] else "")


# the qualifier family (Edits.tla Quals): a type-qualifier-list (q) in every position the grammar has one (p)
QUALS = ["const", "volatile", "restrict", "__restrict", "__restrict__", "_Atomic", "const volatile", "const _Atomic", "volatile restrict"]
QPOS = ["Q int x;", "int Q x;", "int * Q p;", "int * Q * p;", "struct S { int * Q m; } s;", "int (* Q fp)(void);", "int f(int * Q p);", "int f(int * Q);",
        "int x; void f(void) { (void)(int * Q)&x; }", "long n = sizeof(int * Q);", "void f(void) { int * Q l = 0; (void)l; }",
        "int f(int a[Q]);", "int f(int a[Q 3]);", "int f(int a[static Q 3]);", "int f(int a[Q static 3]);", "int f(int a[Q 3]) { return a[0]; }",
        "typedef int * Q T; T t;", "int * Q f(void);"]
Q_NONPTR, Q_ARRAY = {1, 2, 6}, {12, 13, 14, 15, 16}          # 6: restrict needs a pointer to an OBJECT type


def qual_text(q, p):
    return QPOS[p - 1].replace("Q", QUALS[q - 1]) + "\n"


def qual_must(q, p):
    """C11 6.7.3: restrict qualifies pointers to object types only; everything else is a program (gcc accepts each: `python3 harness/c13.py
    --qual-oracle gcc`).  _Atomic inside array brackets is C11 but outside the supported language (diagnosed)."""
    ql = QUALS[q - 1]
    if "restrict" in ql and p in Q_NONPTR:
        return "any"
    if "_Atomic" in ql and p in Q_ARRAY:
        return "any"
    return "accept"


def qual_name(qa):
    return "qual/%s@%d" % (QUALS[qa["q"] - 1].replace(" ", "+"), qa["p"])


def text_of(seed, r, tail=None):
    t = render([seed["toks"][j - 1] if j > 0 else ALPHABET[-j - 1] for j in r])
    if not tail or not tail["e"]:
        return t
    t = t[:-1]                       # render() closes with one newline
    if tail["d"]:
        t += "\n" + DIRS[tail["d"] - 1]
    return t + ENDS[tail["e"] - 1]


def edit_name(ed, tail=None):
    if tail and tail["e"]:
        return "tail%d.%d" % (tail["d"], tail["e"])
    return "+".join("%s%d%s" % (e["k"], e["i"], ".%d" % e["t"] if e["t"] else "") for e in ed)


# ------------------------------------------------------------------ worker
LOC_RE = re.compile(r"^(.*?):(\d+): ")
ASM_RE = re.compile(r"\b(asm|__asm__)\b")
LINEDIR_RE = re.compile(r"(?m)^[ \t]*#[ \t]*(line\b|\d)")


def nlines_of(b):
    """lines(file): the compiler supplies a missing final newline (a non-empty source file shall end in one, 5.1.1.2p2),
    and the position after the final newline - where the EOF token sits - counts as a line"""
    return b.count(b"\n") + 1 + (1 if b and not b.endswith(b"\n") else 0)


def worker_main(jobfile):
    """`python3 c13.py --worker jobs.json` under vt.run_limited: for every job write the input, run the front end
    directly (wait status visible) under a 5 s CPU / 30 s wall limit, then `as` on the output if it exited 0."""
    import resource, signal, subprocess
    spec = json.load(open(jobfile))
    cc, d = spec["cc"], spec["dir"]

    def pre():
        os.setsid()
        resource.setrlimit(resource.RLIMIT_CPU, (spec["cpu"], spec["cpu"] + 1))
        resource.setrlimit(resource.RLIMIT_FSIZE, (64 << 20, 64 << 20))
        resource.setrlimit(resource.RLIMIT_CORE, (0, 0))
    e = dict(os.environ)
    e.pop("CHIBICC_VERIF_TRACE", None)
    with open(jobfile + ".res", "w") as res:
        for j in spec["jobs"]:
            flags = j.get("flags", [])
            if "text" in j:
                f = "%s/i%d.c" % (d, j["id"])
                if "SELFNAME" in j["text"] or any("SELFNAME" in x for x in flags):
                    # a self-including seed: SELFNAME is the input's own name (no dot: it is also stringized token by token)
                    f = "%s/i%d" % (d, j["id"])
                    j["text"] = j["text"].replace("SELFNAME", os.path.basename(f))
                    flags = [x.replace("SELFNAME", os.path.basename(f)) for x in flags]
                open(f, "w", newline="", encoding=j.get("enc", "utf-8")).write(j["text"])
            else:
                f = j["path"]
            o, ef = "%s/o%d.s" % (d, j["id"]), "%s/e%d" % (d, j["id"])
            cmd = [cc, "-cc1"] + flags + ["-cc1-input", f, "-cc1-output", o, f]
            with open(ef, "wb") as efh:
                p = subprocess.Popen(cmd, cwd=d, env=e, stdin=subprocess.DEVNULL, stdout=subprocess.DEVNULL, stderr=efh, preexec_fn=pre)
                try:
                    rc = p.wait(timeout=spec["wall"])
                    tmo = rc in (-signal.SIGXCPU, -signal.SIGXFSZ, -signal.SIGKILL)
                except subprocess.TimeoutExpired:
                    try:
                        os.killpg(p.pid, signal.SIGKILL)
                    except ProcessLookupError:
                        pass
                    p.wait()
                    rc, tmo = -999, True
            err = open(ef, "rb").read(8192).decode(errors="replace")
            os.unlink(ef)
            lines = err.splitlines()
            first = lines[0] if lines else ""
            m = LOC_RE.match(first)
            hasloc, fileok, line, nlines = m is not None, False, 0, 0
            if m:
                line = min(int(m.group(2)), 1 << 30)
                lf = os.path.join(d, m.group(1))          # the front end ran in d; absolute names are unaffected
                if os.path.isfile(lf):
                    fileok = True
                    nlines = nlines_of(open(lf, "rb").read())
            if not nlines:
                nlines = nlines_of(j["text"].encode(j.get("enc", "utf-8")) if "text" in j else open(f, "rb").read())
            if hasloc and "text" in j and LINEDIR_RE.search(j["text"]):
                nlines = max(nlines, line)      # a #line directive is in force: the line is a presumed line (C18 judges those)
            msg = ""
            for l2 in lines[1:3]:
                k = l2.find("^ ")
                if k >= 0:
                    msg = l2[k + 2:]
                    break
            out = os.path.exists(o)
            asrc, aserr = -1, ""
            if rc == 0 and out and "text" in j and ASM_RE.search(j["text"]):
                asrc = 0          # user-written assembler text: what `as` says about it is not the compiler's answer
            elif rc == 0 and out:
                a = subprocess.run(["as", "-o", "/dev/null", o], capture_output=True, text=True, timeout=120, errors="replace")
                asrc = a.returncode
                aserr = "\n".join([x for x in a.stderr.splitlines() if "Error" in x or "error" in x][:2])
            if out:
                os.unlink(o)
            if "text" in j:
                os.unlink(f)
            res.write(json.dumps(dict(id=j["id"], status=rc if 0 <= rc else 0, sig=-rc if -200 < rc < 0 and not tmo else 0, tmo=tmo,
                                      internal=("internal error" in err) or ("Assertion" in err and "failed" in err),
                                      errempty=err.strip() == "", hasloc=hasloc, fileok=fileok, line=line, nlines=nlines,
                                      out=out, **{"as": asrc}, first=first[:300], msg=msg[:200], aserr=aserr[:300],
                                      err2=err[:600] if rc < 0 or "internal error" in err else "")) + "\n")
            res.flush()


def run_inputs(ctx, tree, inputs, label, cpu=5, wall=30):
    """inputs: list of dict(text | path, flags, must, ...) -> the same dicts with 'obs' added"""
    d = ctx.tmp("run-" + label)
    nw = min(vt.NCPU, max(1, len(inputs) // 20))
    files = []
    for i, x in enumerate(inputs):
        x["id"] = i
    for w in range(nw):
        jf = "%s/j%d.json" % (d, w)
        jobs = [dict(id=x["id"], flags=x.get("flags", []), **({"enc": x["enc"]} if "enc" in x else {}),
                     **({"text": x["text"]} if "text" in x else {"path": x["path"]}))
                for x in inputs[w::nw]]
        json.dump(dict(cc=tree + "/chibicc", dir=d, cpu=cpu, wall=wall, jobs=jobs), open(jf, "w"))
        files.append(jf)

    def one(jf):
        vt.run_limited(["python3", os.path.abspath(__file__), "--worker", jf], timeout=3000, mem_gb=4, cpu_s=6000)
        return vt.read_ndjson(jf + ".res")
    n = 0
    for rows in vt.pmap(one, files, workers=nw):
        for r in rows:
            inputs[r["id"]]["obs"] = r
            n += 1
    if n != len(inputs):
        raise Infra("run workers returned %d of %d results (%s)" % (n, len(inputs), label))
    return inputs


TIMEOUT_CAP = 40
OBS_KEYS = ("status", "sig", "tmo", "internal", "errempty", "hasloc", "fileok", "line", "nlines", "out", "as")


def tlc_validate(ctx, inputs, label, count=True):
    """-> {index into inputs: class} of the events TLC rejects"""
    rej = {}
    chunk = 40000
    parts = [list(range(j, min(j + chunk, len(inputs)))) for j in range(0, len(inputs), chunk)]

    def one(t):
        pi, idx = t
        tf = os.path.join(ctx.scratch, "outcome-%s-%d.ndjson" % (label, pi))
        vt.write_ndjson(tf, [dict(e="obs", must=inputs[i]["must"], **{k: inputs[i]["obs"][k] for k in OBS_KEYS}) for i in idx] + [dict(e="eof")])
        out = tf + ".rej"
        ctx.tlc("robust", "OutcomeTrace", "OutcomeTrace.cfg", env=dict(TRACE=tf, OUT=out), workers=1, timeout=1500, count=count, heap="3g")
        rows = vt.read_ndjson(out)
        if not rows or rows[-1]["events"] != len(idx) + 1:
            raise Infra("trace validation %s did not reach the end of the log" % label)
        return {idx[r["at"] - 1]: r["c"] for r in rows[-1]["rejected"]}
    for r in vt.pmap(one, list(enumerate(parts)), workers=4):
        rej.update(r)
    ctx.cov["trace_events"] = ctx.cov.get("trace_events", 0) + len(inputs)
    return rej


# ------------------------------------------------------------- crash sites
FRAME_RE = re.compile(r"^#(\d+)\s+(?:0x[0-9a-f]+ in )?([A-Za-z_][A-Za-z0-9_]*) \(.*?\)(?: at ([^ :]+):(\d+))?", re.M)
SIGNAMES = {11: "SIGSEGV", 8: "SIGFPE", 6: "SIGABRT", 7: "SIGBUS", 4: "SIGILL"}


def frames_of(text, tree_files):
    fr = []
    for m in FRAME_RE.finditer(text):
        f = os.path.basename(m.group(3)) if m.group(3) else None
        fr.append((m.group(2), f if f in tree_files else None))
    return fr


def site_of(frames):
    intree = [fn for fn, f in frames if f]
    if not intree:
        return "outside-tree:%s" % (frames[0][0] if frames else "no-frames")
    if len(frames) >= 40:
        rep = sorted(fn for fn in set(intree) if intree.count(fn) >= 4)
        if rep:
            return "recursion:" + rep[0]
    return intree[0]


def gdb_site(ctx, tree, x, hang=False):
    """top in-tree frame of the backtrace at the signal (or, for a hang, after 2 s)"""
    d = ctx.tmp("gdb")
    h = hashlib.sha1((x.get("text") or x["path"]).encode()).hexdigest()[:12]
    f = x.get("path")
    flags = x.get("flags", [])
    if "text" in x:
        f = "%s/g%s.c" % (d, h)
        txt = x["text"]
        if "SELFNAME" in txt or any("SELFNAME" in y for y in flags):
            f = "%s/g%s" % (d, h)
            txt = txt.replace("SELFNAME", os.path.basename(f))
            flags = [y.replace("SELFNAME", os.path.basename(f)) for y in flags]
        open(f, "w", newline="", encoding=x.get("enc", "utf-8")).write(txt)
    tree_files = set(os.path.basename(p) for p in glob.glob(tree + "/*.c") + glob.glob(tree + "/*.h"))
    args = [tree + "/chibicc", "-cc1"] + flags + ["-cc1-input", f, "-cc1-output", "/dev/null", f]
    if hang:
        script = ["-ex", "run", "-ex", "bt 40"]
        cmd = ["timeout", "-s", "INT", "3", "gdb", "-batch", "-nx"] + script + ["--args"] + args
    else:
        cmd = ["gdb", "-batch", "-nx", "-ex", "run", "-ex", "bt 40", "--args"] + args
    p = vt.run_limited(cmd, timeout=90, mem_gb=8, cwd=d, errors="replace")          # (the front end echoes the input line: any bytes)
    txt = (p.stdout or "") + (p.stderr or "")
    fr = frames_of(txt, tree_files)
    if hang:
        # where a hang is interrupted is arbitrary; the phase cc1() was in (the frame that called down from cc1) is not
        names = [fn for fn, f in fr]
        if "cc1" in names and names.index("cc1") > 0:
            return "phase:" + names[names.index("cc1") - 1], txt[-1500:]
    return site_of(fr), txt[-1500:]


def enclosing_function(tree, fname, line):
    try:
        src = open(os.path.join(tree, os.path.basename(fname))).read().splitlines()
    except OSError:
        return "?"
    for i in range(min(line, len(src)) - 1, -1, -1):
        l = src[i]
        if l[:1].isalpha() or l[:1] == "_":
            m = re.search(r"([A-Za-z_][A-Za-z0-9_]*)\s*\(", l)
            if m and not l.startswith(("typedef", "struct", "union", "enum", "#")):
                return m.group(1)
    return "?"


def norm_msg(s, paths=()):
    for p in paths:
        if p:
            s = s.replace(p, "F")
    s = re.sub(r"/\S*/", "", s)
    s = re.sub(r"'[^']*'|`[^`']*'|\"[^\"]*\"", "Q", s)
    s = re.sub(r"\d+", "N", s)
    return re.sub(r"[^A-Za-z0-9_.:%+<>=#-]+", "_", s).strip("_")[:70]


def signature(ctx, tree, x, cls):
    o = x["obs"]
    if cls == "Signalled":
        m = re.search(r"([A-Za-z_]+\.[ch]):\d+: ([A-Za-z_0-9]+): Assertion", o.get("err2", "") or o["first"])
        if m:
            return "assert:%s:%s" % (m.group(1), m.group(2)), o["err2"]
        site, txt = gdb_site(ctx, tree, x)
        return "crash:%s:%s" % (SIGNAMES.get(o["sig"], "SIG%d" % o["sig"]), site), txt
    if cls == "InternalError":
        m = re.search(r"internal error at ([A-Za-z_]+\.[ch]):(\d+)", o.get("err2", "") or o["first"])
        if m:
            return "internal:%s:%s" % (m.group(1), enclosing_function(tree, m.group(1), int(m.group(2)))), o["err2"]
        return "internal:" + norm_msg(o["first"]), o["err2"]
    if cls == "Timeout":
        site, txt = gdb_site(ctx, tree, x, hang=True)
        return "timeout:" + site, txt
    if cls == "Silent":
        return "silent", ""
    if cls == "BadLocation":
        kind = "noloc" if not o["hasloc"] else "file" if not o["fileok"] else "line%s" % ("0" if o["line"] < 1 else ">n")
        return "badline:%s:%s" % (kind, norm_msg(o["first"], [x.get("path", "")])), o["first"]
    if cls == "NoOutput":
        return "no-output", ""
    if cls == "AsRejected":
        return "as-rejects:" + norm_msg(re.sub(r"^.*?Error: ", "", o["aserr"].splitlines()[0] if o["aserr"] else "?")), o["aserr"]
    cls_ = x.get("cls", "seed")
    if cls_ == "seed":          # a seed is named (a listed finding about one seed must not hide the rejection of another)
        cls_ = "seed/" + str(x.get("name"))
    return "rejected-valid:%s:%s" % (cls_, norm_msg(o["msg"] or o["first"])), o["first"] + " / " + o["msg"]


# --------------------------------------------------------------------- run
def model_check(ctx, errors):
    try:
        ctx.tlc_expect_ok("robust", "Outcome", "Outcome_mc.cfg", "the outcome automaton reaches a forbidden terminal / the classifier disagrees with it", workers=1)
        ctx.tlc_expect_ok("robust", "Outcome", "Outcome_ctl.cfg", "the observation classifier disagrees with the (non-robust) automaton", workers=1)
        for p in ("NoForbidden", "ValidAccepted"):
            r = ctx.tlc("robust", "Outcome", "Outcome_ctl_%s.cfg" % p, workers=1, count=False)
            if r.ok:
                raise Infra("sensitivity control failed: TLC accepts a front end that may crash under %s" % p)
        ctx.tlc_expect_ok("robust", "Propagate", "Propagate_mc.cfg", "the driver model answers a child's bad end with exit 0 / the classifier disagrees with it", workers=1)
        ctx.tlc_expect_ok("robust", "Propagate", "Propagate_ctl.cfg", "the observation classifier disagrees with the (non-robust) driver model", workers=1)
        for p in ("NoForbidden", "Answer"):
            r = ctx.tlc("robust", "Propagate", "Propagate_ctl_%s.cfg" % p, workers=1, count=False)
            if r.ok:
                raise Infra("sensitivity control failed: TLC accepts a driver that ignores how a child ended under %s" % p)
    except BaseException as e:
        errors.append(e)


def control_events(ctx):
    """doctored observations, one per forbidden terminal: OutcomeTrace must reject every one, with that class"""
    ok = dict(status=0, sig=0, tmo=False, internal=False, errempty=True, hasloc=False, fileok=False, line=0, nlines=3, out=True, **{"as": 0})
    diag = dict(ok, status=1, errempty=False, hasloc=True, fileok=True, line=2, out=False, **{"as": -1})
    bad = [("Signalled", dict(diag, status=0, sig=11, errempty=True, hasloc=False)),
           ("InternalError", dict(diag, internal=True, hasloc=False)),
           ("Silent", dict(diag, errempty=True, hasloc=False)),
           ("Timeout", dict(diag, tmo=True)),
           ("BadLocation", dict(diag, line=4)), ("BadLocation", dict(diag, line=0)), ("BadLocation", dict(diag, hasloc=False)),
           ("BadLocation", dict(diag, fileok=False)),
           ("NoOutput", dict(ok, out=False)), ("AsRejected", dict(ok, **{"as": 1})),
           ("Diagnosed", dict(diag))]                                   # a valid program that is diagnosed
    ins = [dict(must="accept" if c == "Diagnosed" else "any", obs=o, ctl=c) for c, o in bad]
    ins += [dict(must="any", obs=diag, ctl=None), dict(must="accept", obs=ok, ctl=None)]
    rej = tlc_validate(ctx, ins, "control", count=False)
    for i, x in enumerate(ins):
        if (x["ctl"] is None) != (i not in rej) or (x["ctl"] and rej[i] != x["ctl"]):
            raise Infra("sensitivity control failed: doctored observation %d (%s) -> %s" % (i, x["ctl"], rej.get(i)))


def corpus_inputs(ctx, tree):
    """programs of the supported language that must be Accepted: the C12 corpus minus seeds/edits"""
    import c12
    items = c12.make_corpus(ctx, tree, [])
    return [dict(path=it["path"], flags=it["flags"] + ["-I" + tree + "/include"], must="accept", cls=it["cls"], name=it["name"])
            for it in items if it["cls"] in ("own", "test", "layout", "expr")]


def big_inputs():
    """generated programs of the supported language with out-of-the-ordinary sizes (must be Accepted; gcc accepts each)"""
    P = {}
    P["long-string"] = 'char s[] = "' + "".join(chr(48 + (i * 7) % 43).replace("\\", "_") for i in range(65536)) + '";\nint n = sizeof s;\n'
    P["long-expr"] = "int f(int a, int b) { return " + " + ".join("a * %d - (b ^ %d)" % (i, i) for i in range(1500)) + "; }\n"
    P["deep-parens"] = "int f(int x) { return " + "(" * 400 + "x" + " + 1)" * 400 + "; }\n"
    P["deep-blocks"] = "int f(int x) { " + "{ x++; " * 300 + "}" * 300 + " return x; }\n"
    P["many-cases"] = "int f(int x) { switch (x) { " + " ".join("case %d: return %d;" % (i * 3, i) for i in range(2000)) + " } return -1; }\n"
    P["many-globals"] = "".join("int g%d = %d;\n" % (i, i) for i in range(5000))
    P["many-params"] = "int f(" + ", ".join("int p%d" % i for i in range(100)) + ") { return " + " + ".join("p%d" % i for i in range(100)) + "; }\nint g(void) { return f(" + ", ".join(str(i) for i in range(100)) + "); }\n"
    P["long-identifier"] = "int %s = 1; int f(void) { return %s; }\n" % ("x" * 4000, "x" * 4000)
    P["big-macro"] = "#define A x + 1 +\n#define B A A A A A A A A A A\n#define C B B B B B B B B B B\n#define D C C C C C C C C C C\nint f(int x) { return D D 0; }\n"
    P["many-locals"] = "int f(void) { " + " ".join("long v%d = %d;" % (i, i) for i in range(3000)) + " return v2999; }\n"
    P["long-initializer"] = "int a[] = { " + ", ".join(str(i) for i in range(20000)) + " };\n"
    P["many-strings"] = "char *t[] = { " + ", ".join('"s%d"' % i for i in range(5000)) + " };\n"
    P["else-if-chain"] = "int f(int x) { " + " else ".join("if (x == %d) return %d;" % (i, i) for i in range(800)) + " return 0; }\n"
    P["many-functions"] = "".join("static int f%d(int a) { return a + %d; }\n" % (i, i) for i in range(1500)) + "int main(void) { return " + " + ".join("f%d(1)" % i for i in range(0, 1500, 50)) + "; }\n"
    return [dict(name="big/" + k, text=v, must="accept", cls="big", seed="big/" + k, ed="id", flags=[]) for k, v in sorted(P.items())]


def judge(ctx, tree, inputs, label):
    run_inputs(ctx, tree, inputs, label)
    ctx.phase("%s: %d inputs run" % (label, len(inputs)))
    rej = tlc_validate(ctx, inputs, label)
    ctx.phase("%s: validated, %d rejected" % (label, len(rej)))
    ctx.cov["rejected_first_pass"] = ctx.cov.get("rejected_first_pass", 0) + len(rej)
    # a hang costs the whole time limit, again in the re-run and under gdb: when a change makes hundreds of inputs hang, the first
    # TIMEOUT_CAP of them are examined (the check fails on the first that repeats); the others are only counted
    tm = sorted(i for i, c in rej.items() if c == "Timeout")
    for i in tm[TIMEOUT_CAP:]:
        del rej[i]
    ctx.cov["timeouts_beyond_cap_not_examined"] = ctx.cov.get("timeouts_beyond_cap_not_examined", 0) + max(0, len(tm) - TIMEOUT_CAP)
    if rej:
        # a rejection must repeat: run the rejected inputs again (longer wall limit: the machine may be loaded)
        idx = sorted(rej)
        again = [dict((k, v) for k, v in inputs[i].items() if k not in ("obs", "id")) for i in idx]
        run_inputs(ctx, tree, again, label + "-again", wall=120)
        rej2 = tlc_validate(ctx, again, label + "-again", count=False)
        still = {idx[j]: c for j, c in rej2.items() if rej[idx[j]] == c}
        ctx.cov["rejections_not_repeated"] = ctx.cov.get("rejections_not_repeated", 0) + len(rej) - len(still)
        rej = still
    # signatures: one gdb run per crashing input, in parallel
    todo = sorted(rej)
    sigs = vt.pmap(lambda i: signature(ctx, tree, inputs[i], rej[i]), todo, workers=12)
    bysig = {}
    for i, (sig, detail) in zip(todo, sigs):
        bysig.setdefault(sig, []).append((i, detail))
    for sig in sorted(bysig):
        for i, detail in bysig[sig][:3]:
            x = inputs[i]
            ctx.report(sig, "%s: %s on input %s: %s" % (rej[i], sig, x.get("name"), (x.get("text") or x.get("path", ""))[:160].replace("\n", "\\n")),
                       case=dict(kind="input", name=x.get("name"), text=x.get("text"), enc=x.get("enc"), path=x.get("path"), flags=x.get("flags", []),
                                 source=None if "text" in x or x.get("cls") in ("own", "test") else open(x["path"], errors="replace").read()[:200000],
                                 must=x["must"], cls=rej[i], obs={k: x["obs"][k] for k in OBS_KEYS + ("first", "msg", "aserr")}, detail=detail[-1200:]))
        for i, detail in bysig[sig][3:]:
            ctx.report(sig, "", case=dict(kind="input"))
    ctx.cov.setdefault("sites", {})
    for sig, l in bysig.items():
        ctx.cov["sites"][sig] = ctx.cov["sites"].get(sig, 0) + len(l)
    return rej


# ------------------------------------------------- the driver layer (fates)
FATE_KEYS = ("md", "ch", "how", "n", "w", "status", "sig", "out", "ran")


def build_fate(ctx, tree):
    import shutil
    if getattr(ctx, "_fate", None):
        return ctx._fate
    d = ctx.tmp("fate-bin")
    r = vt.sh(["cc", "-O1", "-o", d + "/chibicc", os.path.join(vt.VERIF, "harness/c/c13_fate.c")])
    if r.returncode:
        raise Infra("c13_fate.c does not build: " + r.stderr[-600:])
    for n in ("as", "ld"):
        os.link(d + "/chibicc", d + "/" + n)
    os.symlink(tree + "/include", d + "/include")          # the front end looks for its headers next to argv[0]
    real = {n: shutil.which(n) for n in ("as", "ld")}
    if not all(real.values()):
        raise Infra("no system as / ld")
    ctx._fate = (d, real)
    return d, real


def run_fates(ctx, tree, fates, label):
    """one run of the real driver per fate: -> list of observations (Propagate.tla obs)"""
    d, real = build_fate(ctx, tree)
    top = ctx.tmp("fate-" + label)

    def one(t):
        i, ft = t
        w = "%s/r%d" % (top, i)
        os.makedirs(w)
        open(w + "/main.c", "w").write("int printf(const char *, ...);\nint main(void) { printf(\"%d\\n\", 42); return 0; }\n")
        env = dict(os.environ, PATH=d + ":" + os.environ.get("PATH", ""), C13_REAL_CC=tree + "/chibicc", C13_REAL_AS=real["as"], C13_REAL_LD=real["ld"],
                   C13_LOG=w + "/log", TMPDIR=w)
        env.pop("CHIBICC_VERIF_TRACE", None)
        env.pop("C13_FATE", None)
        if ft["how"] != "ok":
            env["C13_FATE"] = "%s:%s:%d:%s" % (FT_CHILD[ft["ch"]], ft["how"], ft["n"], ft["w"])
        cmd = [d + "/chibicc"] + FT_MODE[ft["md"]] + ["main.c"]
        p = vt.run_limited(cmd, timeout=60, mem_gb=4, cwd=w, env=env, errors="replace")
        if p.returncode == -999:
            raise Infra("driver run timed out: %s" % fate_name(ft))
        if "c13_fate:" in (p.stderr or ""):
            raise Infra("fate helper failed: %s" % p.stderr[-300:])
        ran = [{"cc1": 1, "as": 2, "ld": 3}[l] for l in (open(w + "/log").read().split() if os.path.exists(w + "/log") else [])]
        out = os.path.exists(w + "/" + FT_MODE[ft["md"]][-1]) and os.path.getsize(w + "/" + FT_MODE[ft["md"]][-1]) > 0
        return dict(md=ft["md"], ch=ft["ch"], how=ft["how"], n=ft["n"], w=ft["w"] or "after", status=p.returncode if p.returncode >= 0 else 0,
                    sig=-p.returncode if p.returncode < 0 else 0, out=out, ran=ran, err=(p.stderr or "")[:300])
    return vt.pmap(one, list(enumerate(fates)), workers=4)


def tlc_validate_fates(ctx, obs, label, count=True):
    tf = os.path.join(ctx.scratch, "propagate-%s.ndjson" % label)
    vt.write_ndjson(tf, [dict(e="drv", **{k: o[k] for k in FATE_KEYS}) for o in obs] + [dict(e="eof")])
    out = tf + ".rej"
    ctx.tlc("robust", "PropagateTrace", "PropagateTrace.cfg", env=dict(TRACE=tf, OUT=out), workers=1, timeout=600, count=count, heap="2g")
    rows = vt.read_ndjson(out)
    if not rows or rows[-1]["events"] != len(obs) + 1:
        raise Infra("trace validation %s did not reach the end of the log" % label)
    return {r["at"] - 1: r["c"] for r in rows[-1]["rejected"]}


def fate_controls(ctx):
    """doctored driver observations: PropagateTrace must reject each with its class, and accept the two good ones"""
    clean = dict(md=3, ch=0, how="ok", n=0, w="after", status=0, sig=0, out=True, ran=[1, 2])
    bad = dict(md=3, ch=1, how="signal", n=11, w="before", status=1, sig=0, out=False, ran=[1])
    ins = [("Swallowed", dict(bad, status=0, ran=[1, 2], out=True)), ("Swallowed", dict(bad, how="exit", n=3, status=0)), ("DriverDied", dict(bad, status=0, sig=11)),
           ("CleanFailed", dict(clean, status=1)), ("NoOutput", dict(clean, out=False)), (None, clean), (None, bad),
           (None, dict(bad, ch=2, ran=[1], status=0, out=True, md=2))]          # the child with the bad end was never run: a clean run
    rej = tlc_validate_fates(ctx, [o for _, o in ins], "control", count=False)
    for i, (c, _) in enumerate(ins):
        if rej.get(i) != c:
            raise Infra("sensitivity control failed: doctored driver observation %d (%s) -> %s" % (i, c, rej.get(i)))


def judge_fates(ctx, tree, fates, label):
    if not fates:
        raise Infra("Edits.tla emitted no member of the fate family")
    obs = run_fates(ctx, tree, fates, label)
    rej = tlc_validate_fates(ctx, obs, label)
    if rej:          # a rejection must repeat
        idx = sorted(rej)
        obs2 = run_fates(ctx, tree, [fates[i] for i in idx], label + "-again")
        rej2 = tlc_validate_fates(ctx, obs2, label + "-again", count=False)
        for j, i in enumerate(idx):
            if rej2.get(j) == rej[i]:
                obs[i] = obs2[j]
            else:
                ctx.cov["rejections_not_repeated"] = ctx.cov.get("rejections_not_repeated", 0) + 1
                del rej[i]
    ctx.phase("%s: %d driver runs, %d rejected" % (label, len(fates), len(rej)))
    shown = {}
    for i in sorted(rej):
        ft, o = fates[i], obs[i]
        sig = "propagate:%s:%s:%s" % (rej[i], FT_CHILD[ft["ch"]], ft["how"])
        shown[sig] = shown.get(sig, 0) + 1
        if shown[sig] <= 3:
            ctx.report(sig, "%s: %s: the driver answered status=%d signal=%d output=%s after starting %s; stderr: %s" % (
                rej[i], fate_name(ft), o["status"], o["sig"], o["out"], [FT_CHILD[c] for c in o["ran"]], o["err"][:120].replace("\n", "\\n")),
                case=dict(kind="fate", ft=ft, cls=rej[i], obs={k: o[k] for k in FATE_KEYS}))
        else:
            ctx.report(sig, "", case=dict(kind="fate"))
    for ft, o in zip(fates, obs):
        ctx.note_case("fate|%s|%s|%s|%s|%d" % (ft["md"], ft["ch"], ft["how"], ft["w"], o["status"] != 0), nontrivial=ft["how"] != "ok")
    return len(fates)


def run(ctx):
    q = ctx.quick
    errors = []
    th = threading.Thread(target=model_check, args=(ctx, errors))
    th.start()
    tree = ctx.build()
    seeds = load_seeds()
    rows = gen_edits(ctx, seeds, int(os.environ.get("C13_STRIDE", 24 if q else 1)), int(os.environ.get("C13_PAIRSTRIDE", 100 if q else 4)),
                     int(os.environ.get("C13_TAILSTRIDE", 8 if q else 1)), prefstride=int(os.environ.get("C13_PREFSTRIDE", 0 if q else 1)),
                     atomstride=int(os.environ.get("C13_ATOMSTRIDE", 4 if q else 1)), fatestride=int(os.environ.get("C13_FATESTRIDE", 3 if q else 1)))
    ctx.phase("edits enumerated (%d)" % len(rows))
    inputs = []
    for s in seeds:
        inputs.append(dict(name=s["name"], text=render(s["toks"]), must="accept" if s["valid"] else "any", cls="seed", seed=s["name"], ed="id",
                           flags=s["flags"]))
    fates = []
    for r in rows:
        if r["s"] == 0 and r["ft"]["md"]:
            fates.append(r["ft"])
            continue
        if r["s"] == 0 and r["qa"]["q"]:
            qa = r["qa"]
            inputs.append(dict(name=qual_name(qa), text=qual_text(qa["q"], qa["p"]), must=qual_must(qa["q"], qa["p"]), cls="qual", seed="qual@%d" % qa["p"],
                               ed="id", flags=[]))
            continue
        if r["s"] == 0 and r["at"]["f"]:
            at = r["at"]
            nm = atom_name(at)
            inputs.append(dict(name=nm, text=atom_text(at["f"], at["t"], at["u"]), must=atom_must(at["f"], at["t"]), cls="atom", seed=nm.split(".")[0], ed="id",
                               flags=["-I" + tree + "/include"]))
            continue
        if r["px"]["c"]:
            s = seeds[r["s"] - 1]
            if s["valid"] or r["r"] != list(range(1, len(s["toks"]) + 1)):
                raise Infra("Edits.tla emitted a prefix on a valid or edited host: %s" % r)
            inputs.append(dict(name=prefix_name(s, r["px"]), text=prefixed_text(s, r["px"]), enc="latin-1", must="any", cls="prefix", seed="prefix~" + s["name"],
                               ed="id", flags=s["flags"]))
            continue
        if r["s"] == 0 and r["zs"]["z"]:
            zs = r["zs"]
            if zs["c"] <= NVALCTX and zs["z"] > NZSTRUCT:
                raise Infra("Edits.tla emitted an array type in a by-value context: %s" % zs)
            nm = zero_name(zs)
            inputs.append(dict(name=nm, text=zero_text(zs["z"], zs["c"], zs["p"]), must="any", cls="zero", seed=nm, ed="id", flags=["-I" + tree + "/include"]))
            continue
        if r["s"] == 0:
            rd = r["rd"]
            nm = "redecl/%s+%s@%d" % (KIND_NAMES[rd["a"]], KIND_NAMES[rd["b"]], rd["sc"])
            inputs.append(dict(name=nm, text=redecl_text(rd), must="any", cls="redecl", seed=nm, ed="id", flags=[]))
            continue
        s = seeds[r["s"] - 1]
        if len(r["ed"]) == 1 and apply_edit(s["toks"], r["ed"][0]) != [s["toks"][j - 1] if j > 0 else ALPHABET[-j - 1] for j in r["r"]]:
            raise Infra("harness apply_edit disagrees with Edits.tla Apply on %s" % r)
        inputs.append(dict(name="%s~%s" % (s["name"], edit_name(r["ed"], r.get("tail"))), text=text_of(s, r["r"], r.get("tail")), must="any",
                           cls="edit", seed=s["name"], ed=r["ed"], flags=s["flags"]))
    inputs += corpus_inputs(ctx, tree)
    inputs += big_inputs()
    import c12
    # every lexer context x every byte (the C12 garbage-in family): each must be Accepted or Diagnosed
    inputs += [dict(name=n, text=b.decode("latin-1"), enc="latin-1", must="any", cls="lex", seed=n.rsplit("-", 1)[0], ed="id", flags=[])
               for n, b in vt.subsample(c12.lex_files(), ctx.seed, 4 if q else 1)]
    control_events(ctx)
    fate_controls(ctx)
    nfl = []

    def fates_thread():          # the driver runs go on next to the front-end runs
        try:
            nfl.append(judge_fates(ctx, tree, fates, "fates"))
        except BaseException as e:
            errors.append(e)
    th3 = threading.Thread(target=fates_thread)
    th3.start()
    rej = judge(ctx, tree, inputs, "main")
    th3.join()
    if errors:
        raise errors[0]
    nf = nfl[0]
    for i, x in enumerate(inputs):
        o = x["obs"]
        cls = rej.get(i) or ("Accepted" if o["status"] == 0 and not o["sig"] else "Diagnosed")
        ctx.note_case("%s|%s|%s" % (x.get("seed", x.get("name")), cls, norm_msg(o["msg"])), nontrivial=x["cls"] != "seed")
    ctx.cov["traces_validated_against_impl"] += len(inputs) + nf
    ctx.cov["inputs"] = dict(seeds=len(seeds), edits=len(rows), pairs=len([1 for r in rows if len(r["ed"]) == 2]),
                             zero_sized=len([1 for x in inputs if x["cls"] == "zero"]), driver_runs_with_child_fates=nf,
                             prefixed=len([1 for x in inputs if x["cls"] == "prefix"]), atomic_operands=len([1 for x in inputs if x["cls"] == "atom"]),
                             must_accept=len([1 for x in inputs if x["must"] == "accept"]),
                             accepted=len([1 for x in inputs if x["obs"]["status"] == 0 and not x["obs"]["sig"] and not x["obs"]["tmo"]]))
    for x in inputs[len(seeds):: max(1, len(rows) // 5)][:5]:
        ctx.sample(dict(input=x["name"], text=(x.get("text") or x.get("path"))[:300], observation={k: x["obs"][k] for k in OBS_KEYS + ("first", "msg")}))
    th.join()
    if errors:
        raise errors[0]
    ctx.assumptions += [
        "lines(file) counts the position after the final newline (the EOF token's line) as a line; a missing final newline is supplied first, as the compiler does",
        "the time limit is 5 s of CPU time (RLIMIT_CPU) and 30 s wall; output beyond 64 MB counts as a hang",
        "when the input contains a #line directive the reported line is a presumed line and only its presence is judged (C18 judges presumed positions)",
        "for edited inputs that contain an asm statement the assembler's verdict is not judged (the asm text is the user's)",
        "only the first line of stderr is judged for the location (warnings printed before an error carry a location too)",
        "the front end is run as `chibicc -cc1` directly; the driver's mapping of a child's end to its own exit status is checked separately (Propagate.tla, fate family: the real driver with stand-in children); what happens to temporary files is C14's",
        "prefix family: a diagnostic printed while another one is being printed (HEAD: `invalid UTF-8 sequence` raised by the caret placement) still starts with file:line: and counts as Diagnosed",
        "inputs are token-level edits of the seeds rendered with single spaces; byte-level garbage is enumerated only in the lexer contexts of the lex family and in front of the diagnosed token (prefix family); NUL bytes and very long lines are outside the enumerated domain"]
    return ctx.finish(
        rule="input = one state of Edits.tla: (seed, single edit Delete/Replace/Insert/Dup/Swap with a token of the 68-token alphabet) or a pair of edits for seeds of <= 6 tokens, "
             "plus the end-of-file, redeclaration, zero-sized (type of size 0 x context x position), prefix (byte string x container x invalid host), atomic-operand (form x type x type) and qualifier (list x position) families, "
             "the seeds themselves and the must-accept corpus (own sources, test/*.c, layout programs); each is run through chibicc -cc1 (+ as) and its observation is one event "
             "validated by TLC against OutcomeTrace.tla; the fate family (child x mode x end x when) is one run of the real driver each, validated against PropagateTrace.tla; "
             "quick = VERIF_SEED-selected 1/Stride of the closed domain; non-trivial = a real edit or corpus program (not an unedited seed); "
             "distinct = distinct (seed, terminal class, normalised diagnostic message)",
        exhaustive=not q)


def replay(ctx, path):
    c = json.load(open(os.path.join(path, "case.json")))
    c = c.get("case") or c
    tree = ctx.build()
    if c.get("kind") == "fate":
        judge_fates(ctx, tree, [c["ft"]], "replay")
        ctx.cov["traces_validated_against_impl"] += 1
        return ctx.finish(rule="replay of one recorded case")
    x = dict(name=c.get("name"), must=c.get("must", "any"), cls="replay", flags=c.get("flags") or [])
    name = c.get("name") or ""
    if c.get("enc"):
        x["enc"] = c["enc"]
    if c.get("text") is not None:
        x["text"] = c["text"]
    elif name.startswith(("own/", "test/")):          # a file of the tree under test: take it from the current tree
        x["path"] = os.path.join(tree, name[4:] if name.startswith("own/") else name)
        x["flags"] = ["-I" + tree + "/test", "-I" + tree, "-I" + tree + "/include"]
    else:
        x["text"] = c.get("source") or open(c["path"]).read()
        x["flags"] = ["-I" + tree + "/include"]
    judge(ctx, tree, [x], "replay")
    ctx.cov["traces_validated_against_impl"] += 1
    return ctx.finish(rule="replay of one recorded case")


def zero_oracle(cc):
    """development-time validation of the zero-sized family's Level A against a reference compiler: every member must
    compile, and those with a main() must exit 0; prints the members for which that is not so"""
    import subprocess, tempfile
    d = tempfile.mkdtemp(prefix="c13-zero-")
    bad = 0
    dom = [(z, c, p) for z in range(1, NZ + 1) for c in range(1, NCTX + 1) for p in (1, 2, 3) if c > NVALCTX or z <= NZSTRUCT]
    for z, c, p in dom:
        t = zero_text(z, c, p)
        f = "%s/z.c" % d
        open(f, "w").write(t)
        link = "int main" in t
        r = subprocess.run([cc, "-w", "-std=gnu11", "-o", d + "/z.out"] + ([] if link else ["-c"]) + [f], capture_output=True, text=True, timeout=120)
        st = "compile:%d" % r.returncode
        if r.returncode == 0 and link:
            st += " run:%d" % subprocess.run([d + "/z.out"], timeout=20).returncode
        if st not in ("compile:0", "compile:0 run:0"):
            bad += 1
            print(zero_name(dict(z=z, c=c, p=p)), st, r.stderr[:200].replace("\n", " | "))
    print("%d members, %d not accepted / not running to 0 by %s" % (len(dom), bad, cc))
    import shutil
    shutil.rmtree(d, ignore_errors=True)


def must_oracle(cc, which):
    """development-time validation of the must = accept rules of the atomic-operand / qualifier families against a reference
    compiler: prints every member that the rule calls a program and the compiler rejects (must be none), and counts the
    members the compiler accepts although the rule leaves them open"""
    import subprocess, tempfile
    d = tempfile.mkdtemp(prefix="c13-oracle-")
    if which == "atom":
        dom = [(atom_name(dict(f=f, t=t, u=0)), atom_text(f, t, 0), atom_must(f, t)) for f in range(6, NAFORM + 1) for t in range(1, len(ATYPES) + 1)]
    else:
        dom = [(qual_name(dict(q=q, p=p)), qual_text(q, p), qual_must(q, p)) for q in range(1, len(QUALS) + 1) for p in range(1, len(QPOS) + 1)]
    bad = more = 0
    for nm, t, must in dom:
        open(d + "/x.c", "w").write(t)
        r = subprocess.run([cc, "-w", "-std=c11", "-fsyntax-only", d + "/x.c"], capture_output=True, text=True, timeout=60)
        if must == "accept" and r.returncode:
            bad += 1
            print("RULE WRONG", nm, r.stderr.splitlines()[0][:160] if r.stderr else "")
        elif must != "accept" and not r.returncode:
            more += 1
            print("open, accepted by %s: %s" % (cc, nm))
    print("%d members, %d must-accept members rejected by %s, %d open members accepted by it" % (len(dom), bad, cc, more))
    import shutil
    shutil.rmtree(d, ignore_errors=True)


if __name__ == "__main__":
    if len(sys.argv) == 3 and sys.argv[1] == "--worker":
        worker_main(sys.argv[2])
    if len(sys.argv) == 3 and sys.argv[1] in ("--atom-oracle", "--qual-oracle"):
        must_oracle(sys.argv[2], sys.argv[1][2:6])
    if len(sys.argv) == 3 and sys.argv[1] == "--zero-oracle":
        zero_oracle(sys.argv[2])
