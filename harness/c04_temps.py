"""C04, objects with temporary lifetime (tla/mem/Temps.tla): every complete expression of the model - 1..3 calls
returning a struct/union whose array member decays to a pointer into the temporary, all passed to one consumer -
is compiled by the tree's chibicc; the consumer reads every temporary through its pointer: each must still hold
the value its call returned, be aligned, and the temporaries must be pairwise disjoint (6.2.4p8)."""
import json
import vt
import c04

TY = dict(s3=("struct S3", "char v[3];", 3, 1, 1), u8=("union U8", "int v[2]; long l;", 8, 8, 4),
          s12=("struct S12", "int v[3];", 12, 4, 4), s16f=("struct S16F", "double v[2];", 16, 8, 8),
          s24=("struct S24", "long v[3];", 24, 8, 8))
PRELUDE = r'''
int printf(const char *, ...);
struct S3 { char v[3]; }; union U8 { int v[2]; long l; }; struct S12 { int v[3]; }; struct S16F { double v[2]; };
struct S24 { long v[3]; };
static int gk[3], gsz[3], goff[3], gal[3], gok, gdj, gal_ok, gcalls;
#define MK(T, name) static T name(int k) { T r; unsigned char *c = (unsigned char *)&r; \
  for (int j = 0; j < (int)sizeof r; j++) c[j] = (unsigned char)(k * 40 + j + 1); gcalls++; return r; }
MK(struct S3, mk_s3) MK(union U8, mk_u8) MK(struct S12, mk_s12) MK(struct S16F, mk_s16f) MK(struct S24, mk_s24)
static long use(int n, const void *a, const void *b, const void *c) {
  volatile char junk[64]; for (int j = 0; j < 64; j++) junk[j] = 0x77;
  const unsigned char *p[3] = { a, b, c };
  gok = 1; gdj = 1; gal_ok = 1;
  for (int i = 0; i < n; i++) {
    p[i] -= goff[i];
    for (int j = 0; j < gsz[i]; j++) if (p[i][j] != (unsigned char)(gk[i] * 40 + j + 1)) gok = 0;
    if ((unsigned long)p[i] % gal[i]) gal_ok = 0;
  }
  for (int i = 0; i < n; i++) for (int j = i + 1; j < n; j++)
    if (!(p[i] + gsz[i] <= p[j] || p[j] + gsz[j] <= p[i])) gdj = 0;
  return 7;
}
'''


def render(i, c):
    n = len(c["sites"])
    f = ["static void f%d(void) {" % i, " long r; gcalls = 0;"]
    args = []
    for j, t in enumerate(c["sites"]):
        name, _, sz, al, esz = TY[t]
        k = j + 1
        off = 0 if c["form"] == "decay" else esz
        f.append(" gk[%d] = %d; gsz[%d] = %d; goff[%d] = %d; gal[%d] = %d;" % (j, k, j, sz, j, off, j, al))
        args.append("mk_%s(%d).v" % (t, k) if c["form"] == "decay" else "&mk_%s(%d).v[1]" % (t, k))
    args += ["0"] * (3 - n)
    call = "use(%d, %s)" % (n, ", ".join(args))
    if c["cons"] == "call":
        f.append(" r = %s;" % call)
        e = 7
    else:
        f.append(" r = 5 + %s * 2;" % call)
        e = 19
    f.append(' printf("B %d %%d %%d %%d %%d\\n", gok, gal_ok, gdj, r == %d && gcalls == %d);' % (i, e, n))
    f.append("}")
    return "\n".join(f) + "\n"


def judge(i, lines):
    if i in lines.get(("skipped",), ()):
        return None
    got = lines.get(("B", i))
    if got is None:
        return "no-output"
    bad = [nm for nm, g in zip(["contents", "alignment", "overlap", "value"], got) if g != "1"]
    return "+".join(bad) if bad else None


def check(ctx, tree, cs, first=0):
    items = [(first + k, c) for k, c in enumerate(cs)]
    lines, bad = c04.run_all(ctx, "chibicc", tree, items, render, "temps", per=50, prelude=PRELUDE)
    failing = [(i, c, "%s:%s" % (info[0], "crash" if info[1] not in (0, 1) else "rejected")) for i, c, info in bad]
    badidx = set(i for i, _, _ in bad)
    for i, c in items:
        ctx.note_case("temps:%s" % json.dumps(c, sort_keys=True), nontrivial=len(c["sites"]) >= 2)
        if i not in badidx:
            v = judge(i, lines)
            if v:
                failing.append((i, c, v))
    if failing:
        glines, gbad = c04.run_all(ctx, "gcc", tree, [(i, c) for i, c, _ in failing], render, "temps-gcc", per=50, prelude=PRELUDE)
        gb = set(i for i, _, _ in gbad)
        for i, c, v in failing:
            if i in gb or judge(i, glines):
                ctx.oracle_disagreements += 1
                continue
            same = len(set(c["sites"])) < len(c["sites"])
            ctx.report("temps:%s:%s:%s:%s" % (c["form"], c["cons"], "same-type" if same else "distinct-types", v),
                       "temporaries %s (%s, %s): %s" % ("+".join(c["sites"]), c["form"], c["cons"], v),
                       case=dict(kind="temps", case=c, index=i, source=PRELUDE + render(i, c)))
    ctx.cov["traces_validated_against_impl"] += len(items) - len(bad)


def run_temps(ctx, tree, q):
    import os
    out = os.path.join(ctx.scratch, "temps.ndjson")
    cfg = ctx.cfg("mem", "Temps_mc.cfg", EmitOut=True)
    g = ctx.tlc("mem", "Temps", cfg, env=dict(OUT=out), workers=2, heap="2g", timeout=600)
    if not g.ok:
        p = ctx.replay_dir("tlc-Temps")
        open(p + "/counterexample.txt", "w").write(g.trace_text())
        ctx.report("tlc:Temps:%s" % g.violated, "temporaries: per-call-site slots violate Level A", p)
    # (the sensitivity control Variant = "by_type" runs with the other model checks in c04.tlc_models)
    cs = vt.read_ndjson(out)
    if len(cs) < 100:
        raise vt.Infra("Temps generator wrote only %d expressions" % len(cs))
    cs.sort(key=lambda c: json.dumps(c, sort_keys=True))
    ctx.sample(dict(kind="temps", case=cs[len(cs) // 2], c_source=render(0, cs[len(cs) // 2])))
    check(ctx, tree, cs)
    ctx.cov["temp_expressions"] = len(cs)


def replay_one(ctx, tree, c):
    check(ctx, tree, [c["case"]], first=c.get("index", 0))
