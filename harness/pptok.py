"""pp-token tokenizer of the harness (C09/C19): splits `-E` output into
spellings.  It is NOT trusted: c19.run() validates it against Lexer.tla's Lex
on the whole pair/triple domain before it judges anything (DESIGN 5 C19)."""
import re

BAD = "<BAD>"
_P3 = ("<<=", ">>=", "...")
_P2 = ("->", "++", "--", "<<", ">>", "<=", ">=", "==", "!=", "&&", "||",
       "*=", "/=", "%=", "+=", "-=", "&=", "^=", "|=", "##")
_P1 = "[](){}.&*+-~!/%<>^|?:;=,#" + "\\"     # the backslash: 6.4p1 "each non-white-space character that cannot be one of the above"
_IDC = set("abcdefghijklmnopqrstuvwxyzABCDEFGHIJKLMNOPQRSTUVWXYZ_0123456789")
_DIG = set("0123456789")


def _quote_end(s, i, q):
    n = len(s)
    while i < n:
        c = s[i]
        if c == "\n":
            return -1
        if c == "\\":
            if i + 1 >= n:
                return -1
            i += 2
            continue
        if c == q:
            return i + 1
        i += 1
    return -1


def lex(s):
    """list of pp-token spellings; ends with BAD if the text cannot be tokenised"""
    out, i, n = [], 0, len(s)
    while i < n:
        c = s[i]
        if c in " \t\n":
            i += 1
            continue
        if s.startswith("//", i):
            j = s.find("\n", i)
            i = n if j < 0 else j
            continue
        if s.startswith("/*", i):
            j = s.find("*/", i + 2)
            if j < 0:
                return out + [BAD]
            i = j + 2
            continue
        if c in _DIG or (c == "." and i + 1 < n and s[i + 1] in _DIG):
            j = i + 1
            while j < n:
                if s[j] in "eEpP" and j + 1 < n and s[j + 1] in "+-":
                    j += 2
                elif s[j] in _IDC or s[j] == "." or ord(s[j]) >= 0x80:
                    j += 1
                else:
                    break
            out.append(s[i:j])
            i = j
            continue
        pre = -1
        for p, q in (('"', '"'), ('u8"', '"'), ('u"', '"'), ('U"', '"'), ('L"', '"'),
                     ("'", "'"), ("u'", "'"), ("U'", "'"), ("L'", "'")):
            if s.startswith(p, i):
                pre, quote = len(p), q
                break
        if pre >= 0:
            j = _quote_end(s, i + pre, quote)
            if j < 0:
                return out + [BAD]
            out.append(s[i:j])
            i = j
            continue
        if c in _IDC or ord(c) >= 0x80:          # characters outside the basic set are identifier characters
            j = i
            while j < n and (s[j] in _IDC or ord(s[j]) >= 0x80):
                j += 1
            out.append(s[i:j])
            i = j
            continue
        if s[i:i + 3] in _P3:
            out.append(s[i:i + 3]); i += 3
        elif s[i:i + 2] in _P2:
            out.append(s[i:i + 2]); i += 2
        elif c in _P1:
            out.append(c); i += 1
        else:
            return out + [BAD]
    return out
