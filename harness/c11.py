"""C11 - literals have the C11 value, type and encoding.

1. TLC, exhaustive (tla/lex): LitInt (the 6.4.4.1 ladder on 64-bit magnitudes, chibicc's shift
   thresholds refine it), LitStr (character constants, string literals, concatenation/widening;
   chibicc's char narrowing and two-pass join refine it), LitUtf (UTF-8/UTF-16 codecs and Annex D
   over the code points; unicode.c's codec and tables refine them), LitPhase (phases 1-2), LitFlt
   (floating constants whose value is exact: type by suffix, value scaled by 1024).
   Each has a wrong Variant that TLC must reject (sensitivity control).
2. Generate -> replay: every literal TLC wrote is compiled by the chibicc of the tree under test
   into a program that prints value / sizeof / sign probe (integer and character constants, also
   through a static initializer) or sizeof / element sign / object bytes (string literals: the
   anonymous object, a static array and a local array initialised from it).  Code points: every row
   of the table TLC wrote becomes raw-UTF-8 and UCN spellings in all five string prefixes, in
   character constants and in identifiers; unicode.c of the tree is linked into
   harness/c/uc_harness.c and driven with the same table.  Phases 1-2: the same programs with
   CRLF / CR line ends, a BOM, and backslash-newline inside every literal and identifier.
   gcc -std=gnu11 is the tie-break: a vector on which gcc disagrees with the spec is not judged.
3. LitInit (c11_init.py): the string literal as one item of an initializer list - sequences of initializers
   for one character array subobject (override: the terminator must land, 6.7.9p14/p19) and flat, brace-elided
   lists for 13 aggregate shapes (which subobject the literal initialises, 6.7.9p20).
"""
import json, os, re, sys, threading
import vt
from vt import Infra

AREA = "lex"
PRELUDE = (b"int printf(const char *, ...);\n"
           b"static void dump(const void *p, int n) { const unsigned char *b = p; for (int i = 0; i < n; i++) printf(\"%02x\", b[i]); }\n")
ELEM = {"": b"char", "u8": b"char", "u": b"unsigned short", "U": b"unsigned int", "L": b"int"}
_lock = threading.Lock()
# development aid (BUILDER_GUIDE 1.4): VERIF_C11_ORACLE_CHECK=1 judges gcc instead of chibicc on every
# compiled case, i.e. validates Level A against the reference compiler over the whole generated domain
ORACLE_CHECK = bool(os.environ.get("VERIF_C11_ORACLE_CHECK"))


# ------------------------------------------------------------------ rendering
def render(i, c):
    """C text (bytes) of case i: one file-scope object + one function printing one line 'R i ...'."""
    if c["kind"] == "strinit":        # a literal as one item of an initializer list (LitInit.tla)
        import c11_init
        return c11_init.render(i, c)
    s = bytes(c["src"])
    n = str(i).encode()
    if c["kind"] in ("int", "chr"):
        # the same constant in a #if: value (and, for integer constants, signedness: 6.10.1p4 intmax_t / uintmax_t)
        v = int(c["val"])
        lit = (b"(-%d)" % ((1 << 64) - v)) if c["neg"] and v >= 1 << 63 else (b"%d" % v) + (b"" if c["neg"] else b"u")
        cond = b"(" + s + b") == " + lit
        if c["kind"] == "int":
            cond += b" && ((" + s + b") * 0 - 1 < 0) == %d" % c["ppneg"]
        return (b"#if " + cond + b"\n#define PP" + n + b" 1\n#else\n#define PP" + n + b" 0\n#endif\n"
                b"static unsigned long g" + n + b" = " + s + b";\n"
                b"static void f" + n + b"(void) { printf(\"R " + n + b" %lu %d %d %lu %d\\n\", (unsigned long)(" + s +
                b"), (int)sizeof(" + s + b"), (typeof(" + s + b"))-1 < 0, g" + n + b", PP" + n + b"); }\n")
    if c["kind"] == "mid":
        # twice the distance from the lower neighbour in ulps (hex constants are exact): 0 / 2 in the format, 1 in a wider type
        lo, ulp = bytes(c["lower"]), bytes(c["ulp"])
        ty = {4: b"float", 8: b"double"}.get(c["size"])
        probe = b"(long)(((%s) - (" + lo + b")) / (" + ulp + b") * 2)"
        if ty:                                       # (chibicc cannot initialise a static long double: C05's subject)
            return (b"static " + ty + b" g" + n + b" = " + s + b";\n"
                    b"static void f" + n + b"(void) { printf(\"R " + n + b" %ld %d %ld\\n\", " + probe % s + b", (int)sizeof(" + s +
                    b"), " + probe % (b"g" + n) + b"); }\n")
        return (b"static void f" + n + b"(void) { long double v = " + s + b"; printf(\"R " + n + b" %ld %d %ld\\n\", " + probe % s +
                b", (int)sizeof(" + s + b"), " + probe % b"v" + b"); }\n")
    if c["kind"] == "flt":
        return (b"static double g" + n + b" = " + s + b";\n"
                b"static void f" + n + b"(void) { printf(\"R " + n + b" %ld %d %ld\\n\", (long)((" + s +
                b") * 1024), (int)sizeof(" + s + b"), (long)(g" + n + b" * 1024)); }\n")
    if c["kind"] == "str":
        # the anonymous object; arrays of unknown size, of a larger size (zero fill, 6.7.9p21) and of exactly
        # the number of characters (no terminator, 6.7.9p14), static and automatic
        et = ELEM[c["pfx"]]
        nel = c["size"] // c["esize"] - 1
        big = b"%d" % (nel + 3)
        exact = (et + b" lc[%d] = " % nel + s + b"; dump(lc, sizeof lc);") if nel else b"printf(\"-\");"
        return (b"static " + et + b" ga" + n + b"[] = " + s + b";\n"
                b"static " + et + b" gb" + n + b"[" + big + b"] = " + s + b";\n"
                b"static void f" + n + b"(void) { " + et + b" la[] = " + s + b"; " + et + b" lb[" + big + b"] = " + s +
                b"; printf(\"R " + n + b" %d %d \", (int)sizeof(" + s + b"), (typeof((" + s + b")[0]))-1 < 0); dump(" + s +
                b", sizeof(" + s + b")); printf(\" \"); dump(ga" + n + b", sizeof ga" + n + b"); printf(\" \"); dump(la, sizeof la);"
                b" printf(\" \"); dump(gb" + n + b", sizeof gb" + n + b"); printf(\" \"); dump(lb, sizeof lb); printf(\" \"); " + exact +
                b" printf(\"\\n\"); }\n")
    if c["kind"] == "cpstr":          # a run of code points in one string literal: sizeof + bytes only
        return (b"static void f" + n + b"(void) { printf(\"R " + n + b" %d \", (int)sizeof(" + s + b")); dump(" + s +
                b", sizeof(" + s + b")); printf(\"\\n\"); }\n")
    if c["kind"] == "cpchr":          # a run of character constants as an array initializer
        et = ELEM[c["pfx"]]
        return (b"static " + et + b" gc" + n + b"[] = {" + s + b"};\n"
                b"static void f" + n + b"(void) { printf(\"R " + n + b" %d \", (int)sizeof(gc" + n + b")); dump(gc" + n +
                b", sizeof gc" + n + b"); printf(\"\\n\"); }\n")
    if c["kind"] == "ident":          # identifiers: declared in one spelling, used in the other
        return (b"static void f" + n + b"(void) { " + s + b" printf(\"R " + n + b" %ld\\n\", s); }\n")
    raise Infra("unknown case kind %r" % c["kind"])


def expect(i, c):
    if c["kind"] == "strinit":
        import c11_init
        return c11_init.expect(i, c)
    if c["kind"] in ("int", "chr"):
        return "R %d %s %d %d %s 1" % (i, c["val"], c["size"], c["neg"], c["val"])
    if c["kind"] in ("flt", "mid"):
        return "R %d %d %d %d" % (i, c["val"], c["size"], c["val"])
    if c["kind"] == "str":
        b = bytes(c["bytes"])
        h, pad, ex = b.hex(), (b + bytes(2 * c["esize"])).hex(), b[:-c["esize"]].hex() or "-"
        return "R %d %d %d %s %s %s %s %s %s" % (i, c["size"], c["neg"], h, h, h, pad, pad, ex)
    if c["kind"] in ("cpstr", "cpchr"):
        return "R %d %d %s" % (i, len(c["bytes"]), bytes(c["bytes"]).hex())
    if c["kind"] == "ident":
        return "R %d %d" % (i, c["sum"])


def sufclass(t):
    s = bytes(t).decode().lower()
    return ("u" if "u" in s else "") + "l" * s.count("l") or "none"


def sig_of(c, exp, got):
    """classification = root-cause class: kind, prefix/base, item kinds, which observable differs"""
    e, g = exp.split(), (got or "").split()
    k = c["kind"]
    if k in ("flt", "mid"):
        names = ["", "", "value", "size", "static-init-value"]
    elif k in ("int", "chr"):
        names = ["", "", "value", "size", "sign", "static-init-value", "pp-if-value"]
    elif k == "str":
        names = ["", "", "size", "sign", "bytes", "static-array-bytes", "local-array-bytes", "static-larger-array-bytes",
                 "local-larger-array-bytes", "local-exact-array-bytes"]
    else:
        names = ["", "", "size", "bytes"]
    what = "missing"
    for j in range(2, len(e)):
        if j >= len(g) or e[j] != g[j]:
            what = names[j] if j < len(names) else "field%d" % j
            break
    if k == "mid":
        return "mid:%s:%s:%s:%s" % ("float" if c["fmt"] == "f" else "double", bytes(c["suffix"]).decode().lower() or "none",
                                    {"eq": "on-midpoint", "up": "above-midpoint", "dn": "below-midpoint"}[c["side"]], what)
    if k == "flt":
        return "flt:%s:%s:%s" % ("hex" if c["hex"] else "dec", bytes(c["suffix"]).decode().lower() or "none", what)
    if k == "int":
        return "int:base%d:%s:%s" % (c["base"], sufclass(c["suffix"]), what)
    if k == "chr":
        return "chr:%s:%s:%s" % (c["pfx"] or "plain", "+".join(c["kinds"]), what)
    if k == "str":
        return "str:%s:%s:%s:%s" % (c["fam"], "+".join(x or "plain" for x in c["pps"]), "+".join(sorted(set(c["kinds"]))) or "empty", what)
    if k in ("cpstr", "cpchr"):
        return "%s:%s:%s:%s:%s" % (k, c["pfx"] or "plain", c["spell"], c["cls"], what)
    return "ident:%s:%s" % (c["spell"], c["cls"])


# ------------------------------------------------------------------ batches
def run_batches(ctx, compiler, tree, cases, tag, per=250, xform=None):
    """cases = [(index, case)].  Compile batches with `compiler`; returns ({index: line}, failed batches)."""
    d = ctx.tmp("prog-%s-%s" % (tag, compiler))
    batches = [cases[k:k + per] for k in range(0, len(cases), per)]

    def one(t):
        bi, batch = t
        src = "%s/b%d.c" % (d, bi)
        text = PRELUDE + b"".join(render(i, c) for i, c in batch) + \
            b"int main(void) {\n" + b"".join(b" f%d();\n" % i for i, _ in batch) + b" return 0; }\n"
        if xform:
            text = xform(text)
        with open(src, "wb") as f:
            f.write(text)
        exe = src[:-2] + ".exe"
        if compiler == "gcc" or ORACLE_CHECK:
            cmd = ["gcc", "-w", "-std=gnu11", "-finput-charset=UTF-8", "-o", exe, src]
        else:
            cmd = [tree + "/chibicc", "-I" + tree + "/include", "-o", exe, src]
        p = vt.run_limited(cmd, timeout=300, mem_gb=6, errors="replace")
        if p.returncode != 0:
            return bi, batch, ("compile", p.returncode, p.stderr[-600:]), src
        r = vt.run_limited([exe], timeout=120, mem_gb=2, errors="replace")
        try:
            os.unlink(exe)
        except OSError:
            pass
        return bi, batch, ("run", r.returncode, r.stdout), src

    res, failed = {}, []
    for bi, batch, (st, rc, out), src in vt.pmap(one, list(enumerate(batches)), workers=min(8, vt.NCPU)):
        if st == "compile" or rc != 0:
            failed.append((bi, batch, st, rc, out, src))
            if st == "run":                      # keep the lines printed before the crash
                pass
            else:
                continue
        for l in out.splitlines():
            f = l.split()
            if len(f) >= 2 and f[0] == "R" and f[1].isdigit():
                res[int(f[1])] = l.strip()
        if st == "run" and rc != 0:
            for i, _ in batch:
                res.pop(i, None)
    return res, failed


def bisect_failed(ctx, compiler, tree, failed, tag, limit=3, xform=None):
    res, bad = {}, []

    def rec(batch, depth):
        r, f = run_batches(ctx, compiler, tree, batch, "%s-bis%d-%d" % (tag, batch[0][0], depth), per=len(batch), xform=xform)
        if not f:
            res.update(r)
            return
        if len(batch) == 1:
            _, b1, st1, rc1, out1, _ = f[0]
            bad.append((b1[0], st1, rc1, out1))
            return
        if len(bad) >= limit:
            return
        h = len(batch) // 2
        rec(batch[:h], depth + 1)
        rec(batch[h:], depth + 1)
    for bi, batch, st, rc, out, src in failed:
        if len(bad) >= limit:
            break
        rec(batch, 0)
    return res, bad


def source_of(i, c, xform=None):
    t = PRELUDE + render(i, c) + b"int main(void) { f%d(); return 0; }\n" % i
    return (xform(t) if xform else t).decode("utf-8", "replace")


def compare(ctx, tree, cases, tag, first=0, per=250, xform=None, xname=None, nontrivial=None):
    """Replay cases through the tree's chibicc; judge against expect(); gcc is the tie-break."""
    idx = [(first + k, c) for k, c in enumerate(cases)]
    res, failed = run_batches(ctx, "chibicc", tree, idx, tag, per=per, xform=xform)
    pre = (xname + ":") if xname else ""
    if failed:
        r2, bad = bisect_failed(ctx, "chibicc", tree, failed, tag, xform=xform)
        res.update(r2)
        for (i, c), st, rc, out in bad:
            g, gf = run_batches(ctx, "gcc", tree, [(i, c)], tag + "-g%d" % i, per=1, xform=xform)
            if gf or g.get(i) != expect(i, c):
                ctx.oracle_disagreements += 1          # gcc rejects it too / disagrees with the spec: not judged
                continue
            ctx.report(pre + sig_of(c, expect(i, c), "") .rsplit(":", 1)[0] + ":rejected-or-crashed",
                       "chibicc %s rc=%s on %s: %s" % (st, rc, describe(c), str(out)[-300:]),
                       case=dict(kind=tag, case=jsonable(c), index=i, xform=xname, source=source_of(i, c, xform)))
    bad = []
    for i, c in idx:
        ctx.note_case("%s%s:%s" % (pre, tag, bytes(c["src"][:2000]).hex()), nontrivial=True if nontrivial is None else nontrivial(c))
        if i not in res:
            continue
        exp = expect(i, c)
        if res[i] != exp:
            bad.append((i, c, exp, res[i]))
    if bad:
        gres, gf = run_batches(ctx, "gcc", tree, [(i, c) for i, c, _, _ in bad], tag + "-gcc", per=per, xform=xform)
        if gf:
            g2, _ = bisect_failed(ctx, "gcc", tree, gf, tag + "-gcc", limit=50, xform=xform)
            gres.update(g2)
        for i, c, exp, got in bad:
            if gres.get(i) != exp:
                ctx.oracle_disagreements += 1            # the spec disagrees with the reference compiler: not chibicc's fault
                if os.environ.get("VERIF_VERBOSE"):
                    print("oracle disagreement: %s\n  spec %s\n  gcc  %s\n  got  %s" % (describe(c), exp[:150], str(gres.get(i))[:150], got[:150]), file=sys.stderr)
                continue
            ctx.report(pre + sig_of(c, exp, got), "%s: spec (=gcc) %s, chibicc %s" % (describe(c), exp[:200], got[:200]),
                       case=dict(kind=tag, case=jsonable(c), index=i, xform=xname, expected=exp[:20000], got=got[:20000], source=source_of(i, c, xform)[:200000]))
    with _lock:
        ctx.cov["traces_validated_against_impl"] += len(res)
    return res


def jsonable(c):
    return {k: (list(v) if isinstance(v, (bytes, bytearray)) else v) for k, v in c.items()}


def describe(c):
    return "%s %s" % (c["kind"], bytes(c["src"]).decode("utf-8", "replace")[:120])


# ------------------------------------------------------------------ literals in sequence (LitSeq.tla)
UMAX = str((1 << 64) - 1)


def _mid(fmt, shapes, wide=False, **kw):
    return lambda c: c["kind"] == "mid" and c["fmt"] == fmt and c["shape"] in shapes and c["wide"] == wide and \
        all(c[k] == v for k, v in kw.items())


def _int(val, base=None):
    return lambda c: c["kind"] == "int" and c["val"] == val and (base is None or c["base"] == base)


SEQ_CLASSES = {       # class name of LitSeq.tla -> which generated literals instantiate it
    "flt-subnormal-double": lambda c: _mid("d", ("den", "dhi"))(c) and not (c["j"] == 0 and c["shape"] == "den" and c["val"] == 0) and c["side"] != "eq",
    "flt-subnormal-float": lambda c: _mid("f", ("den", "dhi"))(c) and not (c["j"] == 0 and c["shape"] == "den" and c["val"] == 0) and c["side"] != "eq",
    "flt-underflow-zero-double": _mid("d", ("den",), j=0, side="dn"),
    "flt-underflow-zero-float": _mid("f", ("den",), j=0, side="dn"),
    "flt-tiny-long-double": lambda c: _mid("d", ("den", "dhi"), wide=True)(c),
    "flt-near-max-double": _mid("d", ("lo", "hi"), e=971),
    "flt-near-max-float": _mid("f", ("lo", "hi"), e=104),
    "flt-hex-exact": lambda c: c["kind"] == "flt" and c["hex"],
    "flt-dec-exact": lambda c: c["kind"] == "flt" and not c["hex"],
    "int-umax-hex": _int(UMAX, 16), "int-umax-dec": _int(UMAX, 10), "int-umax-oct": _int(UMAX, 8), "int-umax-bin": _int(UMAX, 2),
    "int-umax-minus-1": _int(str((1 << 64) - 2)), "int-2^63": _int(str(1 << 63)), "int-2^63-minus-1": _int(str((1 << 63) - 1)),
    "int-2^32": _int(str(1 << 32)), "int-2^31": _int(str(1 << 31)),
    "int-small": lambda c: c["kind"] == "int" and len(c["val"]) <= 3,
    "chr-max-escape": lambda c: c["kind"] == "chr" and c["kinds"][0] in ("hex", "oct") and int(c["val"]) >= 255,
    "str-escapes": lambda c: c["kind"] == "str" and c["fam"] == "str" and c["pfx"] in ("", "u8") and "hex" in c["kinds"],
    "str-wide-max-escape": lambda c: c["kind"] == "str" and c["fam"] == "str" and c["pfx"] in ("U", "L") and c["kinds"] == ["hex"] and c["size"] == 8,
}


def run_sequences(ctx, tree, seqs, pool):
    """one translation unit per class sequence: each literal must print what it prints in isolation"""
    inst = {}
    for name, pred in SEQ_CLASSES.items():
        inst[name] = [c for c in pool if pred(c)]
        if not inst[name] and pool:
            raise Infra("no generated literal instantiates class %s" % name)
    unknown = set(n for s in seqs for n in s["classes"]) - set(inst)
    if unknown:
        raise Infra("LitSeq classes without a generator predicate: %s" % sorted(unknown))
    d = ctx.tmp("seq")
    work = []
    for j, sq in enumerate(seqs):
        cs = sq.get("_cases") or [inst[n][(ctx.seed * 7 + j * 13 + k) % len(inst[n])] for k, n in enumerate(sq["classes"])]
        work.append((j, sq, cs))

    def build(j, sq, cs, use_gcc):
        parts = [render(k, c) for k, c in enumerate(cs)]
        main = b"int main(void) {\n" + b"".join(b" f%d();\n" % k for k in range(len(cs))) + b" return 0; }\n"
        f = "%s/s%d.c" % (d, j)
        if sq["header"]:                       # the first literal lives in an included header
            open("%s/s%d.h" % (d, j), "wb").write(parts[0])
            text = PRELUDE + b"#include \"s%d.h\"\n" % j + b"".join(parts[1:]) + main
        else:
            text = PRELUDE + b"".join(parts) + main
        open(f, "wb").write(text)
        exe = f[:-2] + (".gx" if use_gcc else ".exe")
        cmd = ["gcc", "-w", "-std=gnu11", "-o", exe, f] if (use_gcc or ORACLE_CHECK) else [tree + "/chibicc", "-I" + tree + "/include", "-o", exe, f]
        p = vt.run_limited(cmd, timeout=120, mem_gb=4, errors="replace")
        if p.returncode != 0:
            return None, p.stderr[-300:]
        r = vt.run_limited([exe], timeout=30, mem_gb=1, errors="replace")
        try:
            os.unlink(exe)
        except OSError:
            pass
        return r.stdout.strip(), "rc=%s" % r.returncode

    def one(t):
        j, sq, cs = t
        exp = "\n".join(expect(k, c) for k, c in enumerate(cs))
        got, err = build(j, sq, cs, False)
        gout = build(j, sq, cs, True)[0] if got != exp else exp
        return j, sq, cs, exp, got, err, gout
    for j, sq, cs, exp, got, err, gout in vt.pmap(one, work, workers=8):
        ctx.note_case("seq:%s:%s" % (">".join(sq["classes"]), b"|".join(bytes(c["src"])[:200] for c in cs).hex()))
        if got == exp:
            continue
        if gout != exp:
            ctx.oracle_disagreements += 1
            continue
        if got is None:
            what = "rejected"
        else:
            bad = [k for k, (a, b) in enumerate(zip(exp.splitlines(), got.splitlines() + [""] * 3)) if a != b]
            what = "literal-%d-differs" % (bad[0] + 1 if bad else len(cs))
        ctx.report("seq:%s:%s" % (">".join(sq["classes"]), what),
                   "literals %s in one translation unit%s: expected %s, got %s %s" % (
                       " ; ".join(bytes(c["src"]).decode("utf-8", "replace")[:50] for c in cs), " (first one in a header)" if sq["header"] else "",
                       exp.replace("\n", " / ")[:200], (got or "").replace("\n", " / ")[:200], err),
                   case=dict(kind="seq", seq={k: v for k, v in sq.items() if k != "_cases"}, cases=[jsonable(c) for c in cs]))
    with _lock:
        ctx.cov["traces_validated_against_impl"] += len(work)
    ctx.cov["literal_sequences"] = len(work)


# ------------------------------------------------------------------ constraint violations, header types
def run_diag(ctx, tree, cases):
    """literals that violate a constraint of 6.4.3 / 6.4.4 (the complement of the generated domain as far as the
    specification names it): the translator owes a diagnostic - a non-zero status or a message.  gcc must agree."""
    d = ctx.tmp("diag")

    def one(t):
        i, c = t
        f = "%s/d%d.c" % (d, i)
        s = bytes(c["src"])
        body = (b"unsigned long x = " + s + b";\n") if c.get("pfx") is None or s.rstrip()[-1:] == b"'" else \
            (b"static " + ELEM[c["pfx"]] + b" x[] = " + s + b";\n")
        open(f, "wb").write(body)
        p = vt.run_limited([tree + "/chibicc", "-S", "-o", "/dev/null", f], timeout=30, mem_gb=2, errors="replace")
        g = None
        if p.returncode == 0 and not p.stderr.strip():
            g = vt.sh(["gcc", "-std=gnu11", "-S", "-o", "/dev/null", f], timeout=30, errors="replace")
            g = g.returncode != 0 or bool(g.stderr.strip())
        return c, p.returncode, p.stderr, g, body
    for c, rc, err, g, body in vt.pmap(one, list(enumerate(cases)), workers=8):
        ctx.note_case("diag:" + bytes(c["src"]).hex())
        if rc < 0:
            ctx.report("diag:crash:" + c["cls"], "chibicc died (%s) on %s" % (rc, body.decode("utf-8", "replace").strip()), case=jsonable(c))
        elif rc == 0 and not err.strip():
            if not g:
                ctx.oracle_disagreements += 1
                continue
            ctx.report("diag:undiagnosed:" + c["cls"], "constraint violation accepted without a diagnostic: %s" % body.decode("utf-8", "replace").strip(),
                       case=jsonable(c))
    ctx.cov["traces_validated_against_impl"] += len(cases)


HDR_PROG = b"""#include <stddef.h>
int printf(const char *, ...);
int main(void) {
  printf("R 0 %d %d %d %d\\n", (int)sizeof(wchar_t), (wchar_t)-1 < 0, (int)sizeof(L'a'), (typeof(L'a'))-1 < 0);
  printf("R 1 %d %d\\n", (int)sizeof(L""[0]), (typeof(L""[0]))-1 < 0);
  int u = 1, U = 2, L = 3, u8 = 4, u8x = 5, Lx = 6;      /* the encoding prefixes are ordinary identifiers elsewhere */
  printf("R 2 %d\\n", u+U*10+L*100+u8*1000+u8x*10000+Lx*100000 + (int)sizeof(u"")+(int)sizeof(U"")+(int)sizeof(L"")+(int)sizeof(u8""));
  return 0;
}
"""


def run_headers(ctx, tree):
    """D19: <stddef.h>'s wchar_t is the type of L'x' and of the elements of L"..." (6.4.4.4p11, 6.4.5p6)"""
    d = ctx.tmp("hdr")
    open(d + "/h.c", "wb").write(HDR_PROG)
    p = vt.run_limited([tree + "/chibicc", "-I" + tree + "/include", "-o", d + "/h.exe", d + "/h.c"], timeout=60)
    out = vt.run_limited([d + "/h.exe"], timeout=20).stdout.split() if p.returncode == 0 else []
    ctx.note_case("hdr:wchar_t")
    ctx.note_case("hdr:prefix-identifiers")
    if len(out) == 13 and out[12] != str(654321 + 2 + 4 + 4 + 1):
        ctx.report("lex:prefix-letters-as-identifiers", "u, U, L, u8 used as identifiers next to prefixed literals: got %s" % out[12],
                   case=dict(kind="hdr", source=HDR_PROG.decode()))
    if len(out) != 13 or out[2:4] != out[4:6] or out[2:4] != out[8:10] or out[2:4] != ["4", "1"]:
        ctx.report("hdr:stddef:wchar_t", "wchar_t of the tree's <stddef.h> (size, signed) = %s but L'a' is %s and L\"\"[0] is %s (expected 4 1 everywhere)" % (out[2:4], out[4:6], out[8:10]),
                   case=dict(kind="hdr", source=HDR_PROG.decode()))
    ctx.cov["traces_validated_against_impl"] += 1


# ------------------------------------------------------------------ TLC
def tlc_gen(ctx, module, base_cfg, out, what, workers=3, **consts):
    cfg = ctx.cfg(AREA, base_cfg, **consts)
    g = ctx.tlc(AREA, module, cfg, env=dict(OUT=out), workers=workers, heap="4g", timeout=3000)
    if not g.ok:
        p = ctx.replay_dir("tlc-%s" % module)
        open(p + "/counterexample.txt", "w").write(g.trace_text())
        json.dump(dict(kind="tlc", area=AREA, module=module, cfg=base_cfg, consts=consts), open(p + "/case.json", "w"))
        ctx.report("tlc:%s:%s" % (module, g.violated), what, p)
    return g


def control(ctx, module, base_cfg, variant, **consts):
    """sensitivity control: the wrong variant of the model must be rejected by TLC"""
    cfg = ctx.cfg(AREA, base_cfg, Variant='"%s"' % variant, **consts)
    r = ctx.tlc(AREA, module, cfg, workers=2, count=False, heap="2g", timeout=1200)
    if r.ok:
        raise Infra("sensitivity control failed: TLC accepts %s with Variant = %s" % (module, variant))
    return r


def dedupe(rows):
    """distinct cases in a fixed order (TLC's workers write lines in a run-dependent order; the seed-selected
    subsample must not depend on it)"""
    seen, out = set(), []
    for r in sorted(rows, key=lambda r: (r["kind"], r.get("fam", ""), bytes(r["src"]))):
        k = (r["kind"], bytes(r["src"]))
        if k not in seen:
            seen.add(k)
            out.append(r)
    return out


# ------------------------------------------------------------------ run
def run(ctx):
    q = ctx.quick
    tree = ctx.build()
    ctx.phase("build done")
    import c11_cp, c11_init
    outs = {k: os.path.join(ctx.scratch, k + ".ndjson") for k in ("int", "str", "cat", "utf", "flt", "mid", "seq", "init")}
    jobs = [
        lambda: tlc_gen(ctx, "LitInt", "LitInt.cfg", outs["int"], "convert_pp_int's ladder (Level I) differs from 6.4.4.1 (Level A)", Emit=True),
        lambda: tlc_gen(ctx, "LitStr", "LitStr.cfg", outs["str"], "character constant / string literal design differs from 6.4.4.4 / 6.4.5",
                        Emit=True, Small=q, Fams='{"chr","str","seq"}'),
        lambda: tlc_gen(ctx, "LitFlt", "LitFlt.cfg", outs["flt"], "floating constant model is inconsistent", workers=2, Emit=True),
        lambda: tlc_gen(ctx, "LitMid", "LitMid.cfg", outs["mid"], "floating constants next to a rounding midpoint: one rounding per type", workers=3, Emit=True),
        lambda: control(ctx, "LitMid", "LitMid.cfg", "via-ldouble"),
        lambda: (tlc_gen(ctx, "LitSeq", "LitSeq.cfg", outs["seq"], "a literal's value depends on the literals before it (hidden tokenizer state)", workers=2, Emit=True),
                 control(ctx, "LitSeq", "LitSeq.cfg", "stale-errno")),
        lambda: control(ctx, "LitInt", "LitInt.cfg", "skip-unsigned-hex"),
        lambda: control(ctx, "LitInt", "LitInt.cfg", "l-ignored-hex"),
        lambda: control(ctx, "LitStr", "LitStr.cfg", "no-widen", Small=True, Fams='{"cat"}'),
        lambda: control(ctx, "LitStr", "LitStr.cfg", "U-sign-extends", Small=True, Fams='{"chr"}'),
    ]
    cat = lambda: tlc_gen(ctx, "LitStr", "LitStr.cfg", outs["cat"], "concatenation of adjacent string literals differs from 6.4.5p5",
                          Emit=True, Small=q, Fams='{"cat"}')
    more = c11_cp.tlc_jobs(ctx, outs["utf"])
    ini = c11_init.tlc_jobs(ctx, outs["init"])
    jobs = [jobs[1], cat, jobs[0], more[0], jobs[3], ini[0], jobs[2], more[3]] + jobs[4:] + [more[1], more[2]] + more[4:] + ini[1:]    # generators first
    errs = []

    def guarded(j):
        try:
            j()
        except Exception as e:                         # re-raised below in the main thread
            errs.append(e)
    vt.pmap(guarded, jobs, workers=6)
    if errs:
        raise errs[0]
    ctx.phase("models done")

    ints = dedupe(vt.read_ndjson(outs["int"]))
    strs = dedupe(vt.read_ndjson(outs["str"]) + vt.read_ndjson(outs["cat"]))
    flts = dedupe(vt.read_ndjson(outs["flt"]))
    if len(flts) < 3000:
        raise Infra("LitFlt wrote only %d cases" % len(flts))
    diags = dedupe([c for c in ints + strs if c["kind"] == "diag"])
    ints = [c for c in ints if c["kind"] == "int"]
    strs = [c for c in strs if c["kind"] != "diag"]
    if len(ints) < 5000 or len(strs) < 3000:
        raise Infra("generators wrote only %d integer / %d character+string cases" % (len(ints), len(strs)))
    # quick: every escape form x prefix (character constants, one-item strings) is always replayed;
    # the seed subsamples the integer grid, the two-item bodies and the concatenations
    is_core = lambda c: c["kind"] == "chr" or c.get("fam") == "seq" or (c.get("fam") == "str" and len(c["kinds"]) <= 1)
    core = [c for c in strs if is_core(c)]
    rest = [c for c in strs if not is_core(c)]
    sel_i = vt.subsample(ints, ctx.seed, 3 if q else 1)
    sel_s = core + vt.subsample(rest, ctx.seed, 3 if q else 1)
    for c in (sel_i[len(sel_i) // 2], core[len(core) // 3], rest[len(rest) // 2]):
        ctx.sample(dict(kind=c["kind"], literal=bytes(c["src"]).decode("utf-8", "replace"), expected=expect(0, c)))
    compare(ctx, tree, sel_i, "int", nontrivial=lambda c: c["val"] not in ("0", "1"))
    compare(ctx, tree, sel_s, "chrstr", first=100000)
    sel_f = vt.subsample(flts, ctx.seed, 4 if q else 1)
    ctx.sample(dict(kind="flt", literal=bytes(sel_f[len(sel_f) // 2]["src"]).decode(), expected=expect(0, sel_f[len(sel_f) // 2])))
    compare(ctx, tree, sel_f, "flt", first=400000, nontrivial=lambda c: c["val"] != 0)
    mids = dedupe(vt.read_ndjson(outs["mid"]))
    if len(mids) < 3000:
        raise Infra("LitMid wrote only %d cases" % len(mids))
    sel_m = vt.subsample(mids, ctx.seed, 4 if q else 1)
    m0 = next(c for c in sel_m if c["side"] != "eq" and not c["wide"] and len(c["src"]) < 80)
    ctx.sample(dict(kind="mid", literal=bytes(m0["src"]).decode(), lower=bytes(m0["lower"]).decode(), expected=expect(0, m0)))
    compare(ctx, tree, sel_m, "mid", first=500000, per=150)
    seqs = sorted(vt.read_ndjson(outs["seq"]), key=lambda r: (len(r["classes"]), r["classes"]))
    if len(seqs) < 400:
        raise Infra("LitSeq wrote only %d sequences" % len(seqs))
    pairs = [r for r in seqs if len(r["classes"]) == 2]
    triples = [r for r in seqs if len(r["classes"]) == 3]
    run_sequences(ctx, tree, pairs + vt.subsample(triples, ctx.seed, 2 if q else 1), ints + flts + mids + strs)
    run_diag(ctx, tree, diags)
    run_headers(ctx, tree)
    ctx.phase("literal replay done")
    c11_init.run_init(ctx, tree, outs["init"])
    ctx.phase("initializer lists done")
    c11_cp.run_cp(ctx, tree, outs["utf"])
    ctx.phase("code points done")
    c11_cp.run_phases(ctx, tree, sel_i, sel_s)
    ctx.phase("phases done")
    ctx.assumptions += [
        "target model: LP64, plain char signed, wchar_t = int, char16_t = unsigned short, char32_t = unsigned int, execution character sets UTF-8/UTF-16/UTF-32 (gcc's defaults on x86-64 Linux)",
        "not generated (implementation-defined or constraint violations): multi-character constants, character constants whose code point needs more than one element, escapes out of range of the element type, decimal constants without a signed type, differently prefixed adjacent literals, UCNs below 00A0 / in D800-DFFF / above 10FFFF, ill-formed UTF-8 in source text (decode_utf8 on ill-formed input is judged separately through the linked harness)",
        "Level A was validated against gcc 12 on the whole generated domain at development time; at check time gcc only discards vectors on which it disagrees with the spec",
        "character constants in #if are expected to have the value they have in expressions (6.10.1p4 leaves the match implementation-defined; gcc documents it and chibicc has one tokenizer for both)",
        "long and long long are not distinguishable (chibicc has one 64-bit type): types are observed as sizeof + signedness",
        "initializer lists (LitInit): an element that the overriding initializer does not itself provide is judged to be zero or exactly a value the specification says was discarded there - the latter is the open finding D35 of property C05 (parser never clears an Initializer subtree), counted in coverage.strinit_elements_holding_a_discarded_value_D35 and left to C05"]
    if ctx.oracle_disagreements or ORACLE_CHECK:
        print("NOTE C11: %d vector(s) on which gcc disagrees with the specification were not judged%s" % (
            ctx.oracle_disagreements, " (oracle check mode: gcc was the compiler under test)" if ORACLE_CHECK else ""))
    return ctx.finish(
        rule="case = one literal (or one run of code points in one literal / one identifier set) written by LitInt/LitStr/LitUtf.tla, compiled by the tree's chibicc and compared on value, sizeof, signedness and object bytes, or one code-point row replayed on unicode.c, or one re-encoding (line ends, BOM, splice position) of a program of such literals, or one initializer-list behaviour of LitInit.tla in one container (static + automatic object); distinct = distinct source text per replay mode; non-trivial = integer magnitude > 1, every other case",
        exhaustive=not q,
        extra=dict(int_cases=len(ints), chrstr_cases=len(strs), flt_cases=len(flts), flt_replayed=len(sel_f), mid_cases=len(mids), mid_replayed=len(sel_m), diag_cases=len(diags), int_replayed=len(sel_i), chrstr_replayed=len(sel_s)))


def replay(ctx, path):
    c = json.load(open(os.path.join(path, "case.json")))
    c = c.get("case") or c
    if c.get("kind") == "tlc":
        cfg = ctx.cfg(AREA, c["cfg"], **c.get("consts", {}))
        ctx.tlc_expect_ok(AREA, c["module"], cfg, "replayed model check")
        return ctx.finish(rule="replay of one recorded case")
    tree = ctx.build()
    import c11_cp
    if c.get("kind") in ("uc", "ucbad"):
        c11_cp.replay_uc(ctx, tree, c)
    elif c.get("kind") == "seq":
        run_sequences(ctx, tree, [dict(c["seq"], _cases=c["cases"])], [])
    elif c.get("kind") in ("strinit", "strdiag"):
        import c11_init
        c11_init.replay(ctx, tree, c)
    elif c.get("kind") == "longfile":
        c11_cp.replay_long(ctx, tree, c)
    elif c.get("kind") == "diag":
        run_diag(ctx, tree, [c])
    elif c.get("kind") == "hdr":
        run_headers(ctx, tree)
    elif c.get("kind") == "neg-ident":
        c11_cp.replay_neg(ctx, tree, c)
    else:
        xn = (c.get("xform") or "").split(":", 1)[-1]
        xf = None
        if xn:
            xf = c11_cp.splice_xform(int(xn[6:])) if xn.startswith("splice") and xn[6:].isdigit() else c11_cp.XFORMS[xn]
        compare(ctx, tree, [c["case"]], c["kind"], first=c.get("index", 0), xform=xf, xname=c.get("xform"))
    return ctx.finish(rule="replay of one recorded case")
