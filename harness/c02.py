"""C02 - floating-point arithmetic and conversions are bit-exact.

1. TLC, exhaustive (FloatMC.tla): on scaled-down "Mini" formats and 3/4/6/8-bit
   integers, over every value: every conversion algorithm of chibicc's cast
   table (Level I, ChibiFloat.tla) equals IntToFloat / FloatToInt / FloatToFloat
   of SoftFloat (Level A); every comparison and truth test equals the IEEE
   relation including all NaN cases; x - y and x / y have the right operand
   order; and Level A's own rounding is the nearest-even value (checked against
   an independent characterisation).  Sensitivity controls: the pinned cast
   table / NaN handling (FIXED = FALSE) and wrong variants (MUT) must be
   rejected by TLC, otherwise the invariants are vacuous -> exit 2.
2. Generate -> replay (FloatGen.tla): SoftFloat at the real formats writes, for
   every case of the closed domain, operand bytes and expected result bytes;
   each case becomes a C function in a batched program compiled by the chibicc
   built from the tree under test; the printed object bytes are compared with
   the specification's.  gcc is the tie-break (never the judge).
   Besides values from memory / constants / initializers, truth tests are also applied to rvalues just produced
   in a register (families tcv, tar), and the macros of <float.h> and the predefined __SIZEOF_*__ macros are
   compared with the values that follow from the specification's format records (families lim, szof).
"""
import json, os, zlib
import vt
from vt import Infra

CT = dict(bool="_Bool", char="signed char", uchar="unsigned char", short="short", ushort="unsigned short", int="int",
          uint="unsigned int", long="long", ulong="unsigned long", float="float", double="double", ldouble="long double")
SHORT = dict(bool="bool", char="i8", uchar="u8", short="i16", ushort="u16", int="i32", uint="u32", long="i64", ulong="u64",
             float="f32", double="f64", ldouble="f80")
NBYTES = dict(bool=1, char=1, uchar=1, short=2, ushort=2, int=4, uint=4, long=8, ulong=8, float=4, double=8, ldouble=10)
SIGNED = {"char", "short", "int", "long"}
FLT = {"float", "double", "ldouble"}
OPS = dict(add="+", sub="-", mul="*", div="/", lt="<", le="<=", gt=">", ge=">=", eq="==", ne="!=", land="&&", lor="||")
TLC_WORKERS = int(os.environ.get("VERIF_TLC_WORKERS", "8"))

PRELUDE = r'''
#include <stdarg.h>
int printf(const char *, ...);
void *memcpy(void *, const void *, unsigned long);
static void dump(int id, void *p, int n, int sz) {
  unsigned char *b = p;
  printf("C %d %d ", id, sz);
  for (int i = 0; i < n; i++) printf("%02x", b[i]);
  printf("\n");
}
static double tar_y1 = 0x15555555555555p-54, tar_y0 = -0.0;
static double vd(int n, ...) {
  va_list ap; va_start(ap, n);
  int k = va_arg(ap, int);
  double d = va_arg(ap, double);
  long m = va_arg(ap, long);
  va_end(ap);
  return (k == 7 && m == -5) ? d : 12345.0;
}
'''


def is_nan(t, b):
    if t == "float":
        v = int.from_bytes(bytes(b), "little")
        return (v >> 23) & 0xff == 0xff and v & 0x7fffff != 0
    if t == "double":
        v = int.from_bytes(bytes(b), "little")
        return (v >> 52) & 0x7ff == 0x7ff and v & ((1 << 52) - 1) != 0
    v = int.from_bytes(bytes(b), "little")
    return (v >> 64) & 0x7fff == 0x7fff and v & ((1 << 63) - 1) != 0


def int_of(t, b):
    v = int.from_bytes(bytes(b), "little")
    if t in SIGNED and v >> (8 * len(b) - 1):
        v -= 1 << (8 * len(b))
    return v


def literal(c, cid):
    """C spelling of the constant (mantissa digits, exponent) - point position, exponent letter and
    suffix case vary with the case number; the denoted value does not."""
    man, ex, t = c["man"], c["ex"], c["rt"]
    h = zlib.crc32(("%s %d %s" % (man, ex, t)).encode())
    sfx = dict(float="fF", double=["", ""], ldouble="lL")[t][h & 1]
    if c["f"] == "dec":
        k = (h >> 1) % (len(man) + 1)           # digits after the point
        if k and (h >> 5) % 3:
            body, ex2 = man[:len(man) - k] + "." + man[len(man) - k:], ex + k
        else:
            body, ex2 = man, ex
        if ex2 == 0 and "." in body:
            return body + sfx
        return "%s%s%d%s" % (body, "eE"[(h >> 3) & 1], ex2, sfx)
    k = (h >> 1) % len(man)                     # hex digits after the point
    if k and (h >> 5) % 3:
        body, ex2 = man[:len(man) - k] + "." + man[len(man) - k:], ex + 4 * k
    else:
        body, ex2 = man, ex
    return "0%s%s%s%d%s" % ("xX"[(h >> 4) & 1], body, "pP"[(h >> 3) & 1], ex2, sfx)


FSFX = dict(float="f", double="", ldouble="L")
ISFX = dict(bool="", char="", uchar="", short="", ushort="", int="", uint="U", long="L", ulong="UL")


def special_literal(t, sign, frac):
    """infinities and NaN have no literal; 1.0/0.0 and 0.0/0.0 are arithmetic constant expressions with these
    values under Annex F (the sign and payload of the NaN are not prescribed and not compared)"""
    z = "0.0" + FSFX[t]
    if frac:
        return "(%s/%s)" % (z, z)
    return "(%s1.0%s/%s)" % ("-" if sign else "", FSFX[t], z)


def operand_literal(t, b):
    """a constant expression of type t whose value is the operand with object bytes b (None if there is none:
    NaN and infinities have no literal).  For int, unsigned, long and unsigned long it is a *bare* integer constant
    (6.4.4.1 gives it exactly that type), so that a conversion applied to it sees a constant operand - a cast in
    front of it would hide it from constant folding in the parser (seeded change C02-3).  The spelling (decimal /
    hexadecimal, suffix case, unsuffixed hexadecimal for unsigned long >= 2^63) varies with the value."""
    if t in FLT:
        v = int.from_bytes(bytes(b), "little")
        if t == "float":
            sign, e, fr, p, bias = v >> 31, (v >> 23) & 0xff, v & 0x7fffff, 24, 127
            if e == 0xff:
                return special_literal(t, sign, fr)
            m, ex = (fr, 1 - bias - (p - 1)) if e == 0 else (fr | 1 << 23, e - bias - (p - 1))
        elif t == "double":
            sign, e, fr, p, bias = v >> 63, (v >> 52) & 0x7ff, v & ((1 << 52) - 1), 53, 1023
            if e == 0x7ff:
                return special_literal(t, sign, fr)
            m, ex = (fr, 1 - bias - (p - 1)) if e == 0 else (fr | 1 << 52, e - bias - (p - 1))
        else:
            sign, e, m, p, bias = v >> 79, (v >> 64) & 0x7fff, v & ((1 << 64) - 1), 64, 16383
            if e == 0x7fff:
                return special_literal(t, sign, m & ((1 << 63) - 1))
            ex = (1 if e == 0 else e) - bias - (p - 1)
        lit = "0.0" + FSFX[t] if m == 0 else "0x%xp%d%s" % (m, ex, FSFX[t])
        return "(-%s)" % lit if sign else lit
    n = int_of(t, b)
    h = zlib.crc32(("%s %d" % (t, n)).encode())
    if t in ("int", "long"):
        sfx = "" if t == "int" else "lL"[h & 1]
        if n == -(1 << 63) or (t == "int" and n == -(1 << 31)):
            return "(-%d%s - 1)" % (-n - 1, sfx)           # the positive literal would have the next wider type
        return "(-%d%s)" % (-n, sfx) if n < 0 else "%d%s" % (n, sfx)
    if t in ("uint", "ulong"):
        sfx = ["U", "u"][h & 1] if t == "uint" else ["UL", "ul", "LU", "uL"][h & 3]
        if t == "ulong" and n >= 1 << 63 and (h >> 2) % 3 == 0:
            return "0x%x" % n                               # an unsuffixed hexadecimal constant that fits no signed type
        return ("0x%x%s" if (h >> 4) & 1 else "%d%s") % (n, sfx)
    if n == -(1 << 63):
        lit = "(-9223372036854775807L - 1)"
    elif n < 0:
        lit = "(-%d%s)" % (-n, ISFX[t])
    else:
        lit = "%d%s" % (n, ISFX[t])
    return "(%s)%s" % (CT[t], lit)


def vsel(c):
    """variant selector: a stable hash of the case coordinates (not the running case number, which depends on
    the subsample), so that the quick tier replays a case in the same embedding as the thorough tier"""
    return zlib.crc32(case_key(c).encode())


def chain_expr(c, x, y, z):
    """((F)(I)x) op rhs / rhs op ((F)(I)x); for an integer I the conversion to F is left to the usual arithmetic
    conversions in half of the cases (selected by the case's hash); rhs is y or (y + z)"""
    F, I = CT[c["bt"]], CT[c["it"]]
    implicit = c["it"] not in FLT and (vsel(c) >> 3) & 1
    chain = "(%s)%s" % (I, x) if implicit else "(%s)(%s)%s" % (F, I, x)
    rhs = "(%s + %s)" % (y, z) if z else y
    return "%s %s %s" % ((chain, OPS[c["op"]], rhs) if c["f"] == "chl" else (rhs, OPS[c["op"]], chain))


AGG = ("agg-arr", "agg-nest", "agg-mem", "agg-desg", "agg-cl")


def tform_expr(c, i, x, y):
    """the operand E of the truth test: family tcv = a conversion result in one of five forms (cast, value of an
    assignment expression, function return value, negated cast, right operand of a comma); tar = x op y"""
    if c["f"] == "tar":
        return "(%s %s %s)" % (x, OPS[c["op2"]], y)
    T, form = CT[c["bt"]], c["it"]
    if form == "cast":
        return "(%s)%s" % (T, x)
    if form == "asg":
        return "(t = %s)" % x
    if form == "ret":
        return "g%d(%s)" % (i, x)
    if form == "neg":
        return "-(%s)%s" % (T, x)
    return "(I%d[0], (%s)%s)" % (i, T, x)


def tctx_stmt(c, i, E, lit, v):
    """the truth test: returns (statement that defines int r, expression whose size is printed)"""
    op = c["op"]
    k1 = "1" if lit else "(I%d[0] | 1)" % i
    k0 = "0" if lit else "(I%d[0] & 0)" % i
    if op == "if":
        return (["int r; if (%s) r = 1; else r = 0;", "int r = 0; while (%s) { r = 1; break; }",
                 "int r = 0; for (; %s; ) { r = 1; break; }"][v] % E, "r")
    e = {"not": "!%s" % E, "cond": "%s ? 1 : 0" % E, "bool": "(_Bool)%s" % E, "land": "%s && %s" % (E, k1),
         "lor": "%s || %s" % (E, k0), "rland": "%s && %s" % ("%(Y)s", E), "rlor": "%s || %s" % ("%(Y)s", E)}[op]
    return "int r = %s;" % e, ("r" if op == "bool" else e)


LIM_NOIF = {"FLT_ROUNDS"}          # 5.2.4.2.2p10: every integer value except FLT_ROUNDS is usable in #if


def modes(c):
    """the embeddings available for a case: {mode: (x literal, y literal)}"""
    f = c["f"]
    out = {"memory": (None, None)}
    if f in ("arith", "neg", "mixed", "conv", "cmp", "truth", "d2l", "d2r") \
            and c["op"] not in ("inc", "dec", "postinc", "postdec", "if") \
            and not (f == "mixed" and c["op"] == "cond"):
        xl = operand_literal(c["at"], c["xb"])
        yl = operand_literal(c["bt"], c["yb"]) if c["yb"] else ""
        if f in ("d2l", "d2r") and xl is not None and yl is not None:
            zl = operand_literal(c["at"], c["zb"])
            inner = "(%s %s %s)" % (xl, OPS[c["op"]], yl)
            xl, yl = (inner, zl) if f == "d2l" else (zl, inner)      # the rendered expression is xl op2 yl
        if xl is not None and yl is not None:
            out["static"] = (xl, yl)
            if f != "conv":
                out["literal"] = (xl, yl)
            else:
                # the constant as the direct operand of the conversion, in every conversion context
                for m in ("lit-cast", "lit-init", "lit-ret", "lit-arg"):
                    out[m] = (xl, yl)
                if c["at"] not in FLT and c["rt"] in FLT:
                    out["lit-cond"] = (xl, yl)
    if f in ("chl", "chr"):
        xl = operand_literal(c["at"], c["xb"])
        yl = operand_literal(c["bt"], c["yb"])
        zl = operand_literal(c["bt"], c["zb"]) if c["zb"] else ""
        if xl is not None and yl is not None and zl is not None:
            e = chain_expr(c, xl, yl, zl)
            out["literal"] = (e, "")
            out["static"] = (e, "")
    if f == "mixed" and c["op"] == "cond" or f == "opasg":
        xl = operand_literal(c["at"], c["xb"])
        yl = operand_literal(c["bt"], c["yb"])
        if yl is not None and (xl is not None or f == "opasg"):
            out["literal"] = (xl, yl)
    if f in ("dec", "hex"):
        out = {"local": (None, None), "static": (None, None)}
    if f in ("tcv", "tar"):
        xl = operand_literal(c["at"], c["xb"])
        yl = operand_literal(c["bt"] if f == "tar" else "double", c["yb"]) if c["yb"] else ""
        if xl is not None and yl is not None:
            out["literal"] = (xl, yl)
            # a constant expression (6.6): no assignment, call or comma, and `if` is not an expression
            if c["op"] != "if" and (f == "tar" or c["it"] in ("cast", "neg")):
                out["static"] = (xl, yl)
        return out
    if f in ("lim", "szof"):
        out = {"local": (None, None)}
        if c["rt"] == "int" and c["man"] not in LIM_NOIF:
            out["ppif"] = (None, None)
        if f == "lim":
            out["static"] = (None, None)
        return out
    if "static" in out and f not in ("chl", "chr"):
        # the same constant expression as an element initializer of an object with automatic storage duration
        for m in AGG:
            out[m] = out["static"]
    return out


def context(c):
    """how a case is embedded in the program: operands from memory, as literals in a run-time expression,
    or as literals in a static initializer (translation-time evaluation).  Both tiers replay every available
    embedding (c["_mode"] set by expand()); a single recorded case without _mode gets the one selected by its hash."""
    ms = modes(c)
    if c.get("_mode") in ms:
        return (c["_mode"],) + ms[c["_mode"]]
    f = c["f"]
    if f in ("lim", "szof"):
        return ("local", None, None)
    if f in ("dec", "hex"):
        m = "static" if vsel(c) % 3 == 2 else "local"
        return (m,) + ms[m]
    m = vsel(c) % (5 if f == "conv" else 6)
    if "static" in ms and m == (4 if f == "conv" else 5):
        return ("static",) + ms["static"]
    if "literal" in ms and m == 2:
        return ("literal",) + ms["literal"]
    return "memory", None, None


def expand(rows, quick):
    """every embedding of every vector; in the quick tier a vector without a special value (-0, NaN, infinity,
    subnormal among its operands or its result: FloatGen's `sp`) gets one of the five aggregate-initializer
    embeddings, selected by its hash - special vectors get all of them in both tiers"""
    out = []
    for c in rows:
        for m in sorted(modes(c)):
            if quick and m in AGG and not c.get("sp") and AGG[vsel(c) % len(AGG)] != m:
                continue
            d = dict(c)
            d["_mode"] = m
            out.append(d)
    return out


def aggregate(mode, RT, e):
    """the constant expression e as an element initializer of an object with automatic storage duration (6.7.9,
    6.5.2.5); the other elements are non-zero so that a store that is skipped or misplaced shows"""
    if mode == "agg-arr":
        return "%s a[3] = {1, %s, 1}; %s r = a[1];" % (RT, e, RT)
    if mode == "agg-nest":
        return "%s a[2][2] = {{1, 1}, {%s, 1}}; %s r = a[1][0];" % (RT, e, RT)
    if mode == "agg-mem":
        return "struct { int k; %s m[2]; char c; } s = {7, {%s, 1}, 2}; %s r = s.m[0];" % (RT, e, RT)
    if mode == "agg-desg":
        return "%s a[4] = {1, [2] = %s, 1}; %s r = a[2];" % (RT, e, RT)
    return "%s *p = (%s[]){1, %s}; %s r = p[1];" % (RT, RT, e, RT)


def render(i, c):
    f, op, at, bt, rt = c["f"], c["op"], c["at"], c["bt"], c["rt"]
    RT = CT[rt]
    out = []
    data = list(c["xb"]) + list(c["yb"]) + list(c.get("zb", []))
    if data:
        out.append("static unsigned char I%d[] = {%s};" % (i, ",".join(map(str, data))))
    pre, body = [], []
    if f in ("tcv", "tar", "lim", "szof"):
        return render_new(i, c, out)
    if f not in ("dec", "hex"):
        pre.append("%s x; memcpy(&x, I%d, %d);" % (CT[at], i, len(c["xb"])))
        if c["yb"]:
            pre.append("%s y; memcpy(&y, I%d + %d, %d);" % (CT[bt], i, len(c["xb"]), len(c["yb"])))
        if c.get("zb"):
            pre.append("%s z; memcpy(&z, I%d + %d, %d);" % (CT[bt] if f in ("chl", "chr") else CT[at], i, len(c["xb"]) + len(c["yb"]), len(c["zb"])))
    v = vsel(c) % 3
    mode, xl, yl = context(c)
    if mode == "literal" and f == "opasg":
        pre = pre[:1]
        e = "x %s= %s" % (OPS[op], yl)
        body.append("%s r = (%s);" % (RT, e) if v == 1 else "%s; %s r = x;" % (e, RT))
    elif mode == "literal" and f == "mixed" and op == "cond":
        pre = []
        e = "(I%d[0] | 1) ? %s : %s" % (i, xl, yl)
        body.append("%s r = %s;" % (RT, e))
    elif mode.startswith("lit-"):
        pre = []
        e = "(%s)%s" % (RT, xl)
        if mode == "lit-cast":
            body.append("%s r = %s;" % (RT, e))
        elif mode == "lit-init":
            body.append("%s r = %s;" % (RT, xl))
        elif mode == "lit-ret":
            out.append("static %s g%d(void) { return %s; }" % (RT, i, xl))
            body.append("%s r = g%d();" % (RT, i))
        elif mode == "lit-arg":
            out.append("static %s g%d(%s v) { return v; }" % (RT, i, RT))
            body.append("%s r = g%d(%s);" % (RT, i, xl))
        else:
            body.append("%s r = (I%d[0] | 1) ? %s : (%s)0;" % (RT, i, xl, RT))
        if rt not in FLT:
            body.append('printf("W %d %%lu\\n", (unsigned long)(%s));' % (i, e))
    elif mode != "memory" and f not in ("dec", "hex"):
        pre = []
        if f in ("chl", "chr"):
            e = xl
        elif f == "conv":
            e = "(%s)%s" % (RT, xl)
        elif f == "neg":
            e = "-%s" % xl
        elif f == "truth" and op in ("not", "cond"):
            e = "!%s" % xl if op == "not" else "%s ? 1 : 0" % xl
        elif f in ("d2l", "d2r"):
            e = "%s %s %s" % (xl, OPS[c["op2"]], yl)
        else:
            e = "%s %s %s" % (xl, OPS[op], yl)
        if mode == "static":
            out.append("static %s G%d = %s;" % (RT, i, e))
            body.append("%s r = G%d;" % (RT, i))
        elif mode in AGG:
            body.append(aggregate(mode, RT, e))
        else:
            body.append("%s r = %s;" % (RT, e))
        if f == "conv" and rt not in FLT:
            body.append('printf("W %d %%lu\\n", (unsigned long)(%s));' % (i, e))
    elif f == "conv":
        e = "(%s)x" % RT
        v = vsel(c) % 5
        if v == 0:
            body.append("%s r = %s;" % (RT, e))
        elif v in (1, 4):
            body.append("%s r = x;" % RT)
        elif v == 2:
            out.append("static %s g%d(%s v) { return v; }" % (RT, i, CT[at]))
            body.append("%s r = g%d(x);" % (RT, i))
        else:
            out.append("static %s g%d(%s v) { return v; }" % (RT, i, RT))
            body.append("%s r = g%d(x);" % (RT, i))
        if rt not in FLT:
            body.append('printf("W %d %%lu\\n", (unsigned long)(%s));' % (i, e))
    elif f in ("chl", "chr"):
        e = chain_expr(c, "x", "y", "z" if c["zb"] else "")
        body.append("%s r = %s;" % (RT, e))
    elif f in ("d2l", "d2r"):
        e = "(x %s y) %s z" % (OPS[op], OPS[c["op2"]]) if f == "d2l" else "z %s (x %s y)" % (OPS[c["op2"]], OPS[op])
        body.append("%s r = %s;" % (RT, e))
    elif f == "mixed" and op == "cond":
        e = "(I%d[0] | 1) ? x : y" % i
        body.append("%s r = %s;" % (RT, e))
    elif f in ("arith", "mixed"):
        e = "x %s y" % OPS[op]
        if f == "arith" and v == 1:
            body.append("%s r = x; r %s= y;" % (RT, OPS[op]))
        else:
            body.append("%s r = %s;" % (RT, e))
    elif f == "opasg":
        e = "x %s= y" % OPS[op]
        body.append("%s r = (%s);" % (RT, e) if v == 1 else "%s; %s r = x;" % (e, RT))
    elif f == "neg":
        e = dict(neg="-x", inc="++x", dec="x--", postinc="x++", postdec="x--")[op]
        body.append("%s r = %s;" % (RT, e) if op in ("neg", "postinc", "postdec") else "%s; %s r = x;" % (e, RT))
    elif f == "cmp":
        e = "x %s y" % OPS[op]
        if v == 1:
            body.append("int r; if (%s) r = 1; else r = 0;" % e)
        elif v == 2:
            body.append("int r = 0; while (%s) { r = 1; break; }" % e)
        else:
            body.append("int r = %s;" % e)
    elif f == "truth":
        if op == "if":
            e = "r"
            body.append(["int r; if (x) r = 1; else r = 0;", "int r = 0; while (x) { r = 1; break; }",
                         "int r = 0; for (; x; ) { r = 1; break; }"][v])
        elif op == "not":
            e = "!x"
            body.append("int r = !x;")
        elif op == "cond":
            e = "x ? 1 : 0"
            body.append("int r = x ? 1 : 0;")
        else:
            e = "x %s y" % OPS[op]
            body.append("int r = %s;" % e)
    elif f in ("dec", "hex"):
        e = literal(c, i)
        if mode == "static":
            out.append("static %s G%d = %s;" % (RT, i, e))
            body.append("%s r = G%d;" % (RT, i))
        elif mode in AGG:
            body.append(aggregate(mode, RT, e))
        else:
            body.append("%s r = %s;" % (RT, e))
    elif f == "vararg":
        e = "vd(3, 7, x, -5L)"
        body.append("%s r = %s;" % (RT, e))
    else:
        raise Infra("unknown family " + f)
    body.append("dump(%d, &r, %d, (int)sizeof(%s));" % (i, NBYTES[rt], e))
    out.append("static void f%d(void) { %s %s }" % (i, " ".join(pre), " ".join(body)))
    return "\n".join(out) + "\n"


def render_new(i, c, out):
    """families tcv / tar (truth tests of rvalues) and lim / szof (<float.h>, __SIZEOF_*__)"""
    f, op, at, bt, rt = c["f"], c["op"], c["at"], c["bt"], c["rt"]
    mode, xl, yl = context(c)
    if f in ("lim", "szof"):
        name, RT = c["man"], CT[rt]
        szexpr = c["it"] if f == "szof" else "r"
        if f == "lim":
            out.insert(0, "#include <float.h>")
        if mode == "ppif":
            # r is the specification's value iff the preprocessor finds the macro equal to it
            body = "\n#if (%s) == (%d)\n int r = %d;\n#else\n int r = 0x7fffffff;\n#endif\n" % (name, c["ex"], c["ex"])
        elif mode == "static":
            body = "static %s G = %s; %s r = G;" % (RT, name, RT)
        else:
            body = "%s r = %s;" % (RT, name)
        # a macro that is not defined is a mismatch of this case (line "U"), not a program that does not compile
        out.append("#ifdef %s" % name)
        out.append("static void f%d(void) { %s dump(%d, &r, %d, (int)sizeof(%s)); }" % (i, body, i, NBYTES[rt], szexpr))
        out.append("#else\nstatic void f%d(void) { printf(\"U %d\\n\"); }\n#endif" % (i, i))
        return "\n".join(out) + "\n"
    lit = mode != "memory"
    pre = []
    if not lit:
        pre.append("%s x; memcpy(&x, I%d, %d);" % (CT[at], i, len(c["xb"])))
        if c["yb"]:
            pre.append("%s y; memcpy(&y, I%d + %d, %d);" % (CT[bt] if f == "tar" else "double", i, len(c["xb"]), len(c["yb"])))
    x, y = (xl, yl) if lit else ("x", "y")
    if f == "tcv":
        if c["it"] == "asg":
            pre.append("%s t;" % CT[bt])
        if c["it"] == "ret":
            out.append("static %s g%d(%s v) { return v; }" % (CT[bt], i, CT[at]))
        E = tform_expr(c, i, x, None)
        stmt, e = tctx_stmt(c, i, E, lit, vsel(c) % 3)
        stmt, e = stmt.replace("%(Y)s", y or ""), e.replace("%(Y)s", y or "")
    else:
        E = tform_expr(c, i, x, y)
        stmt, e = tctx_stmt(c, i, E, lit, vsel(c) % 3)
        # y && E / y || E: both value indices are taken by x and y of E; the left operand is the specification's TcY
        stmt, e = stmt.replace("%(Y)s", TAR_Y[op][lit] if op in TAR_Y else ""), e.replace("%(Y)s", TAR_Y[op][lit] if op in TAR_Y else "")
    if mode == "static":
        out.append("static int G%d = %s;" % (i, e))
        stmt, e = "int r = G%d;" % i, "r"
    out.append("static void f%d(void) { %s %s dump(%d, &r, 4, (int)sizeof(%s)); }" % (i, " ".join(pre), stmt, i, e))
    return "\n".join(out) + "\n"


# family tar: the left operand of `y && E` / `y || E` is the double 1/3 resp. -0.0 of the specification (TcY),
# from memory (a static object of the prelude) or as a constant
TAR_Y = {"rland": ("tar_y1", "0x15555555555555p-54"), "rlor": ("tar_y0", "(-0.0)")}


def expect(i, c):
    """what a conforming implementation prints for case i"""
    rt = c["rt"]
    lines = {"C": (c["sz"], "nan" if c["rn"] else bytes(c["rb"]).hex())}
    if c["f"] == "conv" and rt not in FLT:
        lines["W"] = int_of(rt, c["rb"]) % (1 << 64)
    return lines


def parse_out(text):
    res = {}
    for l in text.splitlines():
        f = l.split()
        try:
            if len(f) == 4 and f[0] == "C":
                res.setdefault(int(f[1]), {})["C"] = (int(f[2]), f[3])
            elif len(f) == 3 and f[0] == "W":
                res.setdefault(int(f[1]), {})["W"] = int(f[2])
            elif len(f) == 2 and f[0] == "U":
                res.setdefault(int(f[1]), {})["U"] = 1
        except ValueError:
            pass
    return res


def agrees(c, exp, got):
    if got is None or "C" not in got:
        return False
    sz, hx = got["C"]
    if sz != exp["C"][0]:
        return False
    if exp["C"][1] == "nan":
        if not is_nan(c["rt"], list(bytes.fromhex(hx))):
            return False
    elif hx != exp["C"][1]:
        return False
    return "W" not in exp or got.get("W") == exp["W"]


def run_batches(ctx, compiler, tree, cases, tag, per=300):
    """cases: [(index, case)].  Returns ({index: parsed lines}, failed batches)."""
    d = ctx.tmp("prog-%s-%s" % (tag, compiler))
    batches = [cases[k:k + per] for k in range(0, len(cases), per)]

    def one(t):
        bi, batch = t
        src = "%s/b%d.c" % (d, bi)
        with open(src, "w") as f:
            f.write(PRELUDE)
            for i, c in batch:
                f.write(render(i, c))
            f.write("int main(void) {\n" + "".join(" f%d();\n" % i for i, _ in batch) + " return 0; }\n")
        exe = src[:-2] + ".exe"
        if compiler == "gcc":
            cmd = ["gcc", "-O0", "-w", "-std=gnu11", "-o", exe, src]
        else:
            cmd = [tree + "/chibicc", "-I" + tree + "/include", "-o", exe, src]
        p = vt.run_limited(cmd, timeout=180)
        if p.returncode != 0:
            return bi, batch, ("compile", p.returncode, p.stderr[-600:])
        r = vt.run_limited([exe], timeout=60, mem_gb=1)
        try:
            os.unlink(exe)
        except OSError:
            pass
        return bi, batch, ("run", r.returncode, r.stdout)

    res, failed = {}, []
    for bi, batch, (st, rc, out) in vt.pmap(one, list(enumerate(batches))):
        if st == "compile" or rc != 0:
            failed.append((batch, st, rc, out))
            continue
        res.update(parse_out(out))
    return res, failed


def bisect_failed(ctx, compiler, tree, failed, tag, limit=3):
    """Batches that do not compile/run: halve recursively, name at most `limit` culprits.  Returns the results of
    the cases that could be judged, the culprits, and the indices left unjudged once the limit was reached."""
    res, bad, unjudged = {}, [], set()

    def rec(batch, depth):
        if len(bad) >= limit:
            unjudged.update(i for i, _ in batch)
            return
        r, f = run_batches(ctx, compiler, tree, batch, "%s-bis%d-%d" % (tag, batch[0][0], depth), per=len(batch))
        if not f:
            res.update(r)
            return
        if len(batch) == 1:
            bad.append((batch[0], f[0][1], f[0][2], f[0][3]))
            return
        h = len(batch) // 2
        rec(batch[:h], depth + 1)
        rec(batch[h:], depth + 1)
    for batch, st, rc, out in failed:
        rec(batch, 0)
    return res, bad, unjudged


def fval_class(t, b):
    """coarse class of a floating operand given its object bytes"""
    if is_nan(t, b):
        return "nan"
    v = int.from_bytes(bytes(b), "little")
    sign = v >> (8 * len(b) - 1)
    mag = v & ((1 << (8 * len(b) - 1)) - 1)
    if mag == 0:
        return "negzero" if sign else "zero"
    if t == "float":
        e, inf, bias, p = (v >> 23) & 0xff, 0xff, 127, 23
    elif t == "double":
        e, inf, bias, p = (v >> 52) & 0x7ff, 0x7ff, 1023, 52
    else:
        e, inf, bias, p = (v >> 64) & 0x7fff, 0x7fff, 16383, 63
    if e == inf:
        return "inf"
    if not sign and e - bias >= 63:
        return "ge2^63"
    if not sign and e - bias >= 31:
        return "ge2^31"
    return "neg" if sign else "value"


def sig_of(c, exp, got):
    s = sig_of0(c, exp, got)
    m = context(c)[0]
    if m in AGG:
        return "auto-init:" + s
    return "literal:" + s if (m == "literal" or m.startswith("lit-")) else s


def sig_of0(c, exp, got):
    f, op, at, bt, rt = c["f"], c["op"], c["at"], c["bt"], c["rt"]
    if got is not None and "C" in got and got["C"][0] != exp["C"][0]:
        kind = "type"
    else:
        kind = None
    if f in ("lim", "szof"):
        if got is not None and "U" in got:
            kind = "undefined"
        return "%s:%s:%s%s" % ("float.h" if f == "lim" else "sizeof-macro", c["man"], kind or "value",
                               {"static": ":static", "ppif": ":#if"}.get(context(c)[0], ""))
    if f in ("tcv", "tar"):
        cl = {fval_class(t, b) for t, b in ((at, c["xb"]),) + (((bt, c["yb"]),) if f == "tar" else ()) if t in FLT}
        cls = "nan" if "nan" in cl else "negzero" if "negzero" in cl else "value"
        what = "%s:%s->%s" % (c["it"], SHORT[at], SHORT[bt]) if f == "tcv" else "%s:%s" % (c["op2"], SHORT[at])
        return "%struth-rvalue:%s:%s:%s" % ("static-init:" if context(c)[0] == "static" else "", op, what, kind or cls)
    if context(c)[0] == "static" and f not in ("dec", "hex"):
        # translation-time evaluation (eval2 / eval_double); the class names the operand that matters
        ops = [(at, c["xb"])] + ([(bt, c["yb"])] if c["yb"] else [])
        if any(t == "int" and int_of("int", b) < 0 for t, b in ops):
            cls = "int32-negative"        # a negative int operand (eval2 ND_CAST zero-extends it, D10)
        elif rt == "bool" and at not in FLT:
            cls = "int-to-bool"
        elif any((t in FLT and fval_class(t, b) == "ge2^63") or (t not in FLT and int_of(t, b) >= 1 << 63) for t, b in ops):
            cls = "ge2^63"
        else:
            cls = "value"
        return "static-init:%s:%s:%s%s:%s" % (f, op + ("-" + c["op2"] if c.get("op2") else ""), SHORT[at],
                                               "," + SHORT[bt] if bt != "-" else "", kind or cls)
    if f == "conv":
        if at in FLT:
            cls = fval_class(at, c["xb"])
        else:
            v = int_of(at, c["xb"])
            cls = "ge2^63" if v >= 1 << 63 else "neg" if v < 0 else "value"
        return "conv:%s->%s:%s" % (SHORT[at], SHORT[bt], kind or cls)
    if f in ("d2l", "d2r"):
        return "%s:%s-%s:%s:%s" % (f, op, c["op2"], SHORT[at], kind or "value")
    if f in ("chl", "chr"):
        return "chain:%s:%s->%s->%s:%s:%s" % (op, SHORT[at], SHORT[c["it"]], SHORT[bt], "left" if f == "chl" else "right",
                                            kind or ("nan" if is_nan(at, c["xb"]) and at in FLT else "value"))
    if f in ("arith", "neg"):
        cl = {fval_class(at, c["xb"])} | ({fval_class(bt, c["yb"])} if c["yb"] else set())
        return "%s:%s:%s:%s" % (f, op, SHORT[at], kind or ("nan" if "nan" in cl else "value"))
    if f in ("cmp", "truth"):
        cl = {fval_class(at, c["xb"])} | ({fval_class(bt, c["yb"])} if c["yb"] else set())
        return "%s:%s:%s:%s" % (f, op, SHORT[at], kind or ("nan" if "nan" in cl else "negzero" if "negzero" in cl else "value"))
    if f in ("dec", "hex"):
        return "const:%s:%s:%s:%s" % (f, SHORT[rt], "static" if context(c)[0] == "static" else "local", kind or "value")
    if f in ("mixed", "opasg"):
        cl = set()
        for t, b in ((at, c["xb"]), (bt, c["yb"])):
            if t not in FLT and int_of(t, b) >= 1 << 63:
                cl.add("ge2^63")
        return "%s:%s:%s,%s:%s" % (f, op, SHORT[at], SHORT[bt], kind or ("ge2^63" if cl else "value"))
    return "%s:%s:%s" % (f, SHORT[at], kind or "value")


def case_key(c):
    return json.dumps([c["f"], c["op"], c.get("op2", "") + c.get("it", ""), c["at"], c["bt"], c["i"], c["j"]])


def full_key(c):
    return case_key(c) + c.get("_mode", "")


def nontrivial(c):
    """a case is non-trivial when the result is not simply a copy of an operand's bytes"""
    return list(c["rb"]) != list(c["xb"]) and list(c["rb"]) != list(c["yb"])


def describe(i, c, exp, got):
    return "%s %s%s (%s%s) x=%s y=%s: spec %s, chibicc %s" % (
        c["f"], c["op"], "".join(" " + str(c[k]) for k in ("op2", "it", "man") if c.get(k)), c["at"],
        "," + c["bt"] if c["bt"] != "-" else "", bytes(c["xb"]).hex(), bytes(c["yb"]).hex(), exp, got)


def compare(ctx, tree, cases, tag, first=0, compiler="chibicc"):
    idx = []
    for k, c in enumerate(cases):
        c["_i"] = c.get("_i", first + k)
        idx.append((c["_i"], c))
    res, failed = run_batches(ctx, compiler, tree, idx, tag)
    unjudged = set()
    if failed:
        r2, culprits, unjudged = bisect_failed(ctx, compiler, tree, failed, tag)
        res.update(r2)
        for (i, c), st, rc, out in culprits:
            unjudged.add(i)
            g, gf = run_batches(ctx, "gcc", tree, [(i, c)], tag + "-g%d" % i, per=1)
            if gf:
                ctx.oracle_disagreements += 1
                continue
            ctx.report("%s:rejected-or-crashed" % sig_of(c, expect(i, c), None).rsplit(":", 1)[0],
                       "chibicc %s rc=%s on %s: %s" % (st, rc, render(i, c)[-300:], str(out)[-300:]),
                       case=dict(kind="vector", case=c, index=i, source=PRELUDE + render(i, c)))
    bad = []
    for i, c in idx:
        ctx.note_case(full_key(c), nontrivial=nontrivial(c))
        if i in unjudged:
            continue
        exp = expect(i, c)
        if not agrees(c, exp, res.get(i)):            # a case whose program ran but printed nothing is a mismatch too
            bad.append((i, c, exp, res.get(i)))
    if bad and compiler != "gcc":
        gres, gf = run_batches(ctx, "gcc", tree, [(i, c) for i, c, _, _ in bad], tag + "-gcc")
        for i, c, exp, got in bad:
            if not agrees(c, exp, gres.get(i)):
                ctx.oracle_disagreements += 1       # the spec disagrees with the reference compiler too: not chibicc's fault
                continue
            ctx.report(sig_of(c, exp, got), describe(i, c, exp, got),
                       case=dict(kind="vector", case=c, index=i, expected=exp, got=got, source=PRELUDE + render(i, c)))
    ctx.cov["traces_validated_against_impl"] += len(res)
    return res, bad


def gen_job(ctx, fams, stride, name):
    out = os.path.join(ctx.scratch, name + ".ndjson")
    cfg = ctx.cfg("float", "FloatGen.cfg", name=name, Fams="{" + ",".join('"%s"' % f for f in fams) + "}",
                  Seed=ctx.seed % max(stride, 1), Stride=stride)
    return dict(name=name, module="FloatGen", cfg=cfg, expect="gen", workers=4, env=dict(OUT=out), out=out)


def run(ctx):
    q = ctx.quick
    import c02_mc
    # VERIF_C02_SKIP_MC is a development aid for mutant runs (the model check does not depend on the tree);
    # registered commands never set it
    jobs = [] if os.environ.get("VERIF_C02_SKIP_MC") else c02_mc.jobs(ctx)
    # the large families are subsampled in the quick tier; conv, neg, the unary truth tests and vararg never are
    gens = [gen_job(ctx, ["conv", "neg", "truth", "vararg"], 3 if q else 1, "gen-small"),
            gen_job(ctx, ["arith", "cmp"], 5 if q else 1, "gen-arith"),
            gen_job(ctx, ["dec", "hex", "mixed", "opasg"], 5 if q else 1, "gen-const"),
            gen_job(ctx, ["d2l", "d2r"], 5 if q else 1, "gen-depth2"),
            gen_job(ctx, ["chl", "chr"], 5 if q else 1, "gen-chain"),
            # truth tests of rvalues: the plain-cast form of tcv is never subsampled (Pick in FloatGen.tla)
            gen_job(ctx, ["tcv", "tar"], 5 if q else 1, "gen-truthrv"),
            gen_job(ctx, ["lim", "szof"], 1, "gen-limits")]
    only = os.environ.get("VERIF_C02_ONLY")      # development aid like VERIF_C02_SKIP_MC: a comma-separated list of generator jobs
    if only:
        gens = [g for g in gens if g["name"] in only.split(",")]
    jobs = [j for j in jobs if j["expect"] == "ok"] + gens + [j for j in jobs if j["expect"] == "reject"]
    box = {}

    def do(j):
        if j == "build":
            box["tree"] = ctx.build()
            return None
        return ctx.tlc("float", j["module"], j["cfg"], env=j["env"], workers=min(j["workers"], TLC_WORKERS), heap="4g",
                       timeout=1500, count=False)
    # at most 12 JVMs at a time (the quick tier has 11 jobs); the long jobs are first in the list
    results = vt.pmap(do, ["build"] + jobs, workers=min(len(jobs) + 1, 12))[1:]
    tree = box["tree"]
    ctx.phase("build + model check + generation (concurrent)")
    rows = []
    for j, res in zip(jobs, results):
        if j["expect"] == "gen":
            if not res.ok:
                raise Infra("FloatGen failed: " + res.trace_text()[:2000])
            ctx.cov["states"] += res.distinct
            ctx.cov["transitions"] += res.generated
            rows += vt.read_ndjson(j["out"])
        else:
            c02_mc.judge(ctx, j, res)
    rows.sort(key=case_key)                       # worker interleaving must not influence case numbers
    nvec = len(rows)
    rows = expand(rows, q)
    if nvec < 2000 and not only:
        raise Infra("generator wrote only %d vectors" % nvec)
    if os.environ.get("VERIF_C02_ORACLE") == "gcc":
        # development: the whole domain through the reference compiler; every line printed is a spec bug or a corner to exclude
        res, bad = compare(ctx, tree, rows, "oracle", compiler="gcc")
        for i, c, exp, got in bad:
            print("ORACLE-DISAGREES", describe(i, c, exp, got).replace("chibicc", "gcc"), render(i, c)[-200:].replace("\n", " "))
        print("oracle validation: %d vectors, %d disagreements" % (len(rows), len(bad)))
    m = rows[len(rows) // 2]
    ctx.sample(dict(kind="vector", case={k: v for k, v in m.items() if k != "_i"}, c_source=render(0, dict(m)), expected=str(expect(0, m))))
    for fam in ("conv", "arith", "dec"):
        s = [r for r in rows if r["f"] == fam and nontrivial(r)]
        if s:
            ctx.sample(dict(kind="vector", c_source=render(1, dict(s[len(s) // 3])), expected=str(expect(1, s[len(s) // 3]))))
    compare(ctx, tree, rows, "vec")
    ctx.phase("replay")
    ctx.assumptions += [
        "SoftFloat (Level A) was validated against gcc 12 -O0 on the whole generated domain at development time; at check time gcc is consulted only to discard vectors on which it disagrees with the spec",
        "NaN results are compared as 'is a NaN' (sign and payload of generated NaNs are not prescribed)",
        "excluded as undefined (C11 6.3.1.4, 6.3.1.5): float->integer conversions whose integral part is not representable, finite->infinity narrowing conversions, constants that overflow or underflow to zero",
        "the CPU performs the rounding of addss/mulsd/fdivrp; the operand set is a designed set, not all pairs"]
    fam_counts = {}
    for r in rows:
        fam_counts[r["f"]] = fam_counts.get(r["f"], 0) + 1
    return ctx.finish(
        rule="case = one vector of FloatGen.tla (family, operator, operand types, operand values from the boundary tables) compiled by the tree's chibicc inside a batched program and compared on the printed object bytes, sizeof and (integer results) the widened value; non-trivial = the expected result bytes differ from each operand's bytes; distinct = distinct (family, operator, types, value indices)",
        exhaustive=not q, extra=dict(vectors=nvec, embedded_cases=len(rows), by_family=fam_counts))


def replay(ctx, path):
    c = json.load(open(os.path.join(path, "case.json")))
    c = c.get("case") or c
    tree = ctx.build()
    if c.get("kind") == "vector":
        cc = c["case"]
        cc["_i"] = c.get("index", 0)
        compare(ctx, tree, [cc], "replay")
    elif c.get("kind") == "tlc":
        cfg = os.path.join(ctx.scratch, "replay.cfg")
        open(cfg, "w").write(c["cfg_text"])
        ctx.tlc_expect_ok(c["area"], c["module"], cfg, "replayed model check", workers=4)
    return ctx.finish(rule="replay of one recorded case")
