"""C01 — integer expressions have the C11 value and the C11 type.

1. TLC, exhaustive at scaled widths (tla/expr/ExprMC.tla): chibicc's typing rule, cast
   insertion, register model with every garbage pattern in the unused upper half,
   cast table, 32/64-bit instruction selection (ChibiInt.tla, Level I) agree with C11
   (CInt.tla, Level A) on value, register invariant, stored object and observable type for
   every operator x type pair x value pair, in every context; sanity theorems about
   Level A; sensitivity control (a wrong setcc / cast-table row must be rejected).
2. Generate -> replay (tla/expr/ExprGen.tla, real widths via lib/BV.tla): every vector of
   the closed domain (quick: a VERIF_SEED-selected 1/Stride of it) becomes one function
   of a batched C program compiled by the chibicc built from the tree under test; the
   program prints (unsigned long)expr, sizeof(expr), signedness probe and the object
   afterwards; each line must equal Level A's.  gcc is consulted only when chibicc
   disagrees with the spec (spec bug guard).  Families added after the seeded round: cast
   chains (T)(U)x explicit and through the conversion contexts; pointers (p + i, i + p,
   p - i, p - q, comparisons) into a reserved address range standing for a huge array.
3. Trace validation (hook H4): the typing decision add_type takes for every arithmetic node
   while the tree's chibicc compiles generated programs, the repository's tests and (thorough)
   its own sources is checked by TLC against CInt.ResultType (tla/expr/TypeTrace.tla)."""
import glob, json, os, subprocess
import vt, cexpr
from vt import Infra
from cexpr import CT, OPS, lit, leaves, render

STRIDE = 128
FAMS = ["bin", "un", "cast", "cond", "init", "arg", "ret", "assign", "test", "opasg", "incdec", "d2l", "d2r",
        "cc", "ccinit", "ccarg", "ccret", "ccassign", "ptr", "aopasg", "aincdec", "asgv", "wrap0"]


PTROP = {"pdiff": "-", "plt": "<", "ple": "<=", "pgt": ">", "pge": ">=", "peq": "==", "pne": "!="}


def ptr_code(n, v):
    """pointer family: p = base + k in an array of element type ELEM[es]"""
    et, op = cexpr.ELEM[v["es"]], v["op"]
    g = []
    if op in PTROP:
        body = "%s *p = (%s *)B + %sL, *q = (%s *)B + %sL; P(%d, p %s q);" % (et, et, v["k"], et, v["k2"], n, PTROP[op])
    else:
        it = CT[v["it"]]
        g.append("static %s g%d = %s;" % (it, n, lit(v["it"], int(v["iv"]))))
        m = n % 3
        if op == "pradd":
            ex = "g%d + p" % n
        elif op == "padd":
            ex = ["p + g%d", "(q = p, q += g%d)", "&p[g%d]"][m] % n
        else:
            ex = ["p - g%d", "(q = p, q -= g%d)", "p - g%d"][m] % n
        body = "%s *p = (%s *)B + %sL, *q; PP(%d, %s);" % (et, et, v["k"], n, ex)
    g.append("static void c%d(void) { %s }" % (n, body))
    return "\n".join(g), "c%d();" % n


TSIZE = {"bool": 1, "char": 1, "uchar": 1, "short": 2, "ushort": 2, "int": 4, "uint": 4, "long": 8, "ulong": 8, "enum": 4}
TSIGNED = {"char", "short", "int", "long", "enum"}


def asgv_code(n, v):
    """family asgv: the value of `d = g` (d a local variable, a parameter or a global by case number) in a using context"""
    ta, td, use = CT[v["ta"]], CT[v["td"]], v["op"]
    kind = n % 3                                  # 0 local, 1 parameter, 2 global
    g = ["static %s g%d = %s;" % (ta, n, lit(v["ta"], int(v["xv"])))]
    if kind == 2:
        g.append("static %s d%d;" % (td, n))
    d = "d%d" % n if kind == 2 else "d"
    decl = "%s d; " % td if kind == 0 else ""
    params = "%s d" % td if kind == 1 else "void"
    call = "c%d(0);" % n if kind == 1 else "c%d();" % n
    asg = "(%s = g%d)" % (d, n)
    if use == "winit":
        body = "long w = %s; P(%d, w);" % (asg, n)
    elif use == "cmp":
        body = "P(%d, %s == %s);" % (n, asg, lit(v["td"], int(v["v"])))
    elif use == "cond":
        body = "int r; if (%s) r = 1; else r = 0; P(%d, r);" % (asg, n)
    elif use == "index":
        body = "P(%d, TAB[%s = g%d]);" % (n, d, n)
    elif use == "arg":
        g.append("static void a%d(long q) { P(%d, q); }" % (n, n))
        body = "a%d(%s = g%d);" % (n, d, n)
    elif use == "chain":
        body = "%s c; P(%d, (c = %s = g%d));" % (CT[v["tc"]], n, d, n)
    if use == "ret":
        g.append("static long r%d(%s) { %sreturn %s = g%d; }" % (n, params, decl, d, n))
        g.append("static void c%d(void) { P(%d, r%d(%s)); }" % (n, n, n, "0" if kind == 1 else ""))
        return "\n".join(g), "c%d();" % n
    g.append("static void c%d(%s) { %s%s O(%d, %s); }" % (n, params, decl, body, n, d))
    return "\n".join(g), call


def case_code(n, v):
    """-> (file-scope text, statement for main)"""
    if v["f"] == "ptr":
        return ptr_code(n, v)
    if v["f"] == "asgv":
        return asgv_code(n, v)
    fam, e = v["f"], v["e"]
    lv = leaves(e)
    mode = n % 3 if fam not in ("arg", "ret") else (n % 2) * 2      # 0 var, 1 param, 2 call
    g = ["static %s g%d_%d = %s;" % (CT[l["t"]], n, i, lit(l["t"], int(l["v"]))) for i, l in enumerate(lv)]
    if mode == 2:
        g += ["static %s h%d_%d(void) { return g%d_%d; }" % (CT[l["t"]], n, i, n, i) for i, l in enumerate(lv)]
    src = (lambda i, l: "g%d_%d" % (n, i)) if mode == 0 else (lambda i, l: "p%d" % i) if mode == 1 \
        else (lambda i, l: "h%d_%d()" % (n, i))
    params = ", ".join("%s p%d" % (CT[l["t"]], i) for i, l in enumerate(lv)) if mode == 1 else "void"
    args = ", ".join("g%d_%d" % (n, i) for i in range(len(lv))) if mode == 1 else ""
    td = CT.get(v["d"], "int")
    if fam in ("opasg", "incdec", "aopasg", "aincdec"):
        ta = ("_Atomic " if fam[0] == "a" else "") + CT[lv[0]["t"]]
        if fam in ("opasg", "aopasg"):
            ex = "(x %s= %s)" % (OPS[e["op"]], src(1, lv[1]))
        else:
            ex = {"preinc": "(++x)", "predec": "(--x)", "postinc": "(x++)", "postdec": "(x--)"}[v["op"]]
        body = "%s x = %s; P(%d, %s); O(%d, x);" % (ta, src(0, lv[0]), n, ex, n)
    else:
        ex = render(e, src)
        if fam == "init":
            body = "%s d = %s; P(%d, d);" % (td, ex, n)
        elif fam == "arg":
            g.append("static void a%d(%s q) { P(%d, q); }" % (n, td, n))
            body = "a%d(%s);" % (n, ex)
        elif fam == "ret":
            g.append("static %s r%d(void) { return %s; }" % (td, n, ex))
            body = "P(%d, r%d());" % (n, n)
        elif fam == "assign":
            if n % 2 == 0 or mode == 1:
                g.append("static %s d%d;" % (td, n))
                body = "P(%d, (d%d = %s)); O(%d, d%d);" % (n, n, ex, n, n)
            else:                                            # a local variable as the assigned object
                body = "%s d; P(%d, (d = %s)); O(%d, d);" % (td, n, ex, n)
        elif fam == "test":
            body = "int r; if (%s) r = 1; else r = 0; P(%d, r);" % (ex, n)
        else:
            body = "P(%d, %s);" % (n, ex)
    g.append("static void c%d(%s) { %s }" % (n, params, body))
    return "\n".join(g), "c%d(%s);" % (n, args)


def mkprog(cases):
    tops, calls = [], []
    for n, v in cases:
        t, c = case_code(n, v)
        tops.append(t)
        calls.append(c)
    ptr = any(v["f"] == "ptr" for _, v in cases)
    tab = any(v["f"] == "asgv" and v["op"] == "index" for _, v in cases)
    return (cexpr.PRELUDE + (cexpr.PTR_PRELUDE if ptr else "") + ("static int TAB[300];\n" if tab else "") + "\n".join(tops)
            + "\nint main(void) {\n" + (cexpr.PTR_INIT if ptr else "")
            + ("for (int i = 0; i < 300; i++) TAB[i] = 3 * i + 1;\n" if tab else "") + "\n".join(calls) + "\nreturn 0; }\n")


def expected(v):
    if v["f"] == "asgv":
        t = {"winit": "long", "ret": "long", "arg": "long", "chain": v["tc"]}.get(v["op"], "int")
        exp = {"v": [v["u"], str(TSIZE[t]), "1" if t in TSIGNED else "0"]}
        if v["op"] != "ret":
            exp["o"] = [v["obj"]]
        return exp
    exp = {"v": [v["u"], str(v["sz"]), "1" if v["sg"] else "0"]}
    if v["f"] in ("assign", "opasg", "incdec", "aopasg", "aincdec"):
        exp["o"] = [v["obj"]]
    return exp


def classify(v, exp, got):
    """root-cause class of a disagreement"""
    fam = v["f"]
    if fam == "asgv":
        sh = "%s:%s<-%s%s" % (v["op"], v["td"], v["ta"], "" if v["tc"] == "-" else ":outer-" + v["tc"])
        if isinstance(got, tuple):
            return "asgv:%s:crash-or-rejected" % sh
        return "asgv:%s:%s" % (sh, "value" if got.get("v") != exp["v"] else "object")
    if fam == "ptr":
        sh = "%s:elem%d:%s" % (v["op"], v["es"], v["it"])
        if isinstance(got, tuple):
            return "ptr:%s:crash-or-rejected" % sh
        return "ptr:%s:%s" % (sh, "type" if got.get("v", [None] * 3)[1:] != exp["v"][1:] else "value")
    sh = cexpr.shape(v["e"])
    if fam in ("init", "arg", "ret", "assign"):
        sh = "%s<-%s" % (v["d"], sh)
    elif fam in ("incdec", "aincdec"):
        sh = "%s(%s)" % (v["op"], sh)
    elif fam in ("opasg", "aopasg"):
        sh = "asg-" + sh
    if isinstance(got, tuple):
        return "%s:%s:crash-or-rejected" % (fam, sh)
    if got.get("v", [None] * 3)[1:] != exp["v"][1:]:
        return "%s:%s:type" % (fam, sh)
    if got.get("v")[0] != exp["v"][0]:
        return "%s:%s:value" % (fam, sh)
    return "%s:%s:object" % (fam, sh)


def judge(ctx, tree, vecs, tag):
    items = list(enumerate(vecs))
    res = cexpr.run_batches(ctx, tree, items, mkprog, tag)
    bad = []
    for n, v in items:
        exp, got = expected(v), res.get(n)
        ctx.note_case(cexpr.describe(v) if v["f"] in ("ptr", "asgv") else "%s|%s|%s|%s" % (v["f"], v["op"], v["d"], cexpr.const_text(v["e"])),
                      nontrivial=v["f"] != "test")
        if isinstance(got, tuple) or any(got.get(k) != exp[k] for k in exp):
            bad.append((n, v, exp, got))
    if bad:          # tie-break: does the reference compiler agree with the spec on these?
        gres = cexpr.gcc_results(ctx, [(n, v) for n, v, _, _ in bad], mkprog, tag)
        for n, v, exp, got in bad:
            gg = gres.get(n)
            if isinstance(gg, tuple) or any(gg.get(k) != exp[k] for k in exp):
                ctx.oracle_disagreements += 1
                continue
            ctx.report(classify(v, exp, got),
                       "%s: spec (and gcc) %s, chibicc %s" % (cexpr.describe(v), exp, got if not isinstance(got, tuple) else got[1][-200:]),
                       case=dict(kind="vector", vec=v, expected=exp, got=got, program=mkprog([(0, v)])))
    ctx.cov["traces_validated_against_impl"] += len(items)
    return len(bad)


# ------------------------------------------------------- trace validation (hook H4)
def record_typing(ctx, tree, sources, label, incs=()):
    """Compile each source with the tree's chibicc under CHIBICC_VERIF_TRACE and return, per
    compiler process, the H4 typing events add_type logged: [(source, pid, [event, ...])]."""
    d = ctx.tmp("ty-" + label)

    def one(src):
        tf = "%s/%s.trace" % (d, os.path.basename(src))
        env = dict(os.environ, CHIBICC_VERIF_TRACE=tf)
        subprocess.run([tree + "/chibicc", "-I" + tree + "/include"] + ["-I" + i for i in incs] + ["-c", "-o", "/dev/null", src],
                       capture_output=True, text=True, env=env, timeout=300)
        bypid = {}
        if os.path.exists(tf):
            with open(tf) as f:
                for l in f:
                    if '"e":"ty"' in l:
                        r = json.loads(l)
                        bypid.setdefault(r["pid"], []).append(r)
            os.unlink(tf)
        return [(os.path.basename(src), pid, [dict(e="ty", k=r["k"], l=r["l"], r=r["r"], t=r["t"])
                                               for r in sorted(rs, key=lambda r: r["seq"])])
                for pid, rs in sorted(bypid.items())]
    out = []
    for r in vt.pmap(one, sources):
        out += r
    return out


INT_TYPES = set(CT)
WRONG = {"int": "uint", "uint": "int", "long": "int", "ulong": "long"}


def validate_typing(ctx, procs, label):
    """TLC checks every recorded typing decision against CInt.ResultType (TypeTrace.tla).  One doctored
    event (a real event with its result type falsified) is appended: the run is accepted iff TLC explains
    every real event and stops exactly at the doctored one (sensitivity control; else exit 2)."""
    evs = []
    for src, pid, es in procs:
        evs.append(dict(e="reset", src=src, pid=pid))
        evs += es
    real = [e for e in evs if e["e"] == "ty" and e["l"] in INT_TYPES and e["r"] in INT_TYPES and e["t"] in WRONG]
    if not real:
        raise Infra("no H4 typing events recorded (%s): is the tree built with -DCHIBICC_VERIF and hook H4 present?" % label)
    doctored = dict(real[0], t=WRONG[real[0]["t"]])
    dropped = []
    for attempt in range(6):
        tf = os.path.join(ctx.scratch, "typing-%s-%d.ndjson" % (label, attempt))
        vt.write_ndjson(tf, evs + [doctored])
        res = ctx.tlc("expr", "TypeTrace", "TypeTrace.cfg", env=dict(TRACE=tf), workers=1, timeout=1200, count=(attempt == 0))
        if res.ok and res.depth == len(evs) + 1:
            break                                            # every real event explained, the doctored one refused
        if res.ok and res.depth == len(evs) + 2:
            raise Infra("sensitivity control failed: TypeTrace accepts the doctored event %s" % doctored)
        res2 = ctx.tlc("expr", "TypeTrace", "TypeTrace.cfg", env=dict(TRACE=tf), workers=1, timeout=1200, count=False)
        if res2.depth != res.depth or not 1 <= res.depth <= len(evs):
            raise Infra("typing trace validation not reproducible (%s: depth %d vs %d of %d)" % (label, res.depth, res2.depth, len(evs)))
        bad = evs[res.depth - 1]                             # the first event the specification does not explain
        src = next((e["src"] for e in reversed(evs[:res.depth]) if e["e"] == "reset"), "?")
        ctx.report("trace:typing:%s:%s,%s->%s" % (bad["k"], bad["l"], bad["r"], bad["t"]),
                   "add_type typed a `%s` node with operands %s, %s as %s while compiling %s; C11 prescribes another size/signedness"
                   % (bad["k"], bad["l"], bad["r"], bad["t"], src),
                   case=dict(kind="typing", event=bad, source=src, label=label))
        dropped.append(bad)
        evs = [e for e in evs if e != bad]                   # look for further, different rejections
        os.unlink(tf)
    nev = sum(1 for e in evs if e["e"] == "ty") + sum(1 for _ in dropped)
    ctx.cov["traces_validated_against_impl"] += len(procs)
    ctx.cov["trace_events"] = ctx.cov.get("trace_events", 0) + nev
    for src, pid, es in procs:
        ctx.note_case("typing-trace|%s|%s" % (label, src))
    return not dropped


def typing_traces(ctx, tree, vec):
    """(a) a seed-selected part of the generated programs, (b) the repository's arithmetic tests,
    thorough: every test and the compiler's own sources."""
    q = ctx.quick
    wd = ctx.tmp("ty-src")
    items = vt.subsample(list(enumerate(vec)), ctx.seed, 20 if q else 4)     # spread over every family
    chunks = [items[i:i + 300] for i in range(0, len(items), 300)]
    gen = []
    for j, ch in enumerate(chunks):
        p = "%s/gen%d.c" % (wd, j)
        open(p, "w").write(mkprog(ch))
        gen.append(p)
    ok = validate_typing(ctx, record_typing(ctx, tree, gen, "generated"), "generated")
    tests = [tree + "/test/%s.c" % t for t in ("arith", "usualconv", "cast")]
    if not q:
        tests = sorted(glob.glob(tree + "/test/*.c"))
    ok &= validate_typing(ctx, record_typing(ctx, tree, tests, "tests", incs=[tree + "/test"]), "tests")
    if not q:
        own = sorted(glob.glob(tree + "/*.c"))
        ok &= validate_typing(ctx, record_typing(ctx, tree, own, "own-sources", incs=[tree]), "own-sources")
    return ok


def run(ctx):
    q = ctx.quick
    tree = ctx.build()
    ctx.phase("build done")
    inv = ["TypeInv", "ValueInv", "ObjInv", "LoadInv", "SanityInv", "PtrInv"]
    shapes = '{"bin","un","cast","cond","cc","ptr","asg","test","opasg","incdec","aopasg","aincdec"}'
    cexpr.model_check(ctx, "ExprMC_quick.cfg" if q else "ExprMC.cfg",
                      "chibicc's typing/cast/register design does not compute the C11 value or type", inv,
                      workers=12 if q else 16, sensitivity="one" if q else True, Shapes=shapes)
    ctx.phase("mc done")
    # depth 1 + contexts, then depth 2 (thinned separately)
    vec = cexpr.generate(ctx, FAMS, STRIDE if q else 1, 5 if q else 1, workers=12 if q else 16, minimum=2000, base=1, d2base=8)
    ctx.phase("gen done (%d vectors)" % len(vec))
    for v in vec[:: max(1, len(vec) // 4)][:4]:
        ctx.sample(dict(kind="vector", family=v["f"], expr=cexpr.describe(v), dest=v.get("d"), expected_ulong=v["u"],
                        expected_sizeof=v["sz"], expected_signed=v["sg"]))
    vec = [v for v in vec if not v["dz"]]
    nbad = judge(ctx, tree, vec, "c01")
    ctx.phase("replay done (%d disagreements before triage)" % nbad)
    typing_traces(ctx, tree, vec)
    ctx.sample(dict(kind="typing trace", events=ctx.cov.get("trace_events", 0),
                    validated="every add_type decision for an arithmetic node against CInt.ResultType (TypeTrace.tla)"))
    ctx.phase("typing traces done (%d events)" % ctx.cov.get("trace_events", 0))
    ctx.assumptions += [
        "H4 events carry type names only: a bit-field operand is logged with its declared type, so the bit-field promotion rule is not checked by the trace",
        "ChibiInt.tla is a hand transcription of type.c/codegen.c; the replayed programs judge the real compiler",
        "implementation-defined choices fixed as gcc/psABI define them: char signed, out-of-range conversion to signed is modular, >> of negative values is arithmetic, an enumerated type with a negative enumerator is int",
        "boundary-value tables (ExprGen.tla Cand) instead of all 2^64 values at real widths; all values only at scaled widths",
        "expressions whose unevaluated operand of && || ?: is undefined are not generated"]
    return ctx.finish(
        rule="vector = (family, operator(s), operand types, operand boundary values) of ExprGen.tla's closed domain on which Level A is defined; replayed with operands coming from globals / parameters / call results; non-trivial = everything except plain truth tests; distinct = distinct (family, operator, destination, expression text)",
        exhaustive=not q,
        extra=dict(vectors=len(vec), stride=STRIDE if q else 1))


def replay(ctx, path):
    c = json.load(open(os.path.join(path, "case.json")))
    c = c.get("case") or c
    if c.get("kind") == "tlc":
        ctx.tlc_expect_ok(c["area"], c["module"], c["cfg"], "replayed model check", env=c.get("env"))
    elif c.get("kind") == "typing":
        validate_typing(ctx, [(c["source"], 0, [c["event"]] + [dict(e="ty", k="add", l="int", r="int", t="int")])], "replay")
    else:
        tree = ctx.build()
        judge(ctx, tree, [c["vec"]], "replay")
    return ctx.finish(rule="replay of one recorded case")
