"""C12 - self-hosting fixpoint: chibicc compiled by chibicc is the same compiler.

Level claimed: exploration (DESIGN 5, C12): a thin TLA+ monitor, a large
systematically enumerated set of inputs.

1. TLC: tla/boot/Bootstrap.tla (three stage binaries, observations out[k, input,
   opts, env], properties StageAgree / EnvIndep / ObjFix) is model-checked at
   small constants; three sensitivity controls (Correct = FALSE) must be rejected.
2. The harness builds stage 1 (cc, hooks compiled in but inert), stage 2 (every
   *.c of the tree compiled by stage 1 exactly as the Makefile's stage2/%.o rule
   does: `./chibicc -c -o stage2/x.o x.c`, no -DCHIBICC_VERIF, so verif_trace.c is
   an empty translation unit) and stage 3 (the same with ./stage2/chibicc and an
   explicit -I./include), runs each stage on every corpus input under -S / -E / -c
   x {default, -fPIC, -fno-common} in two environments (A: ASLR on, shallow cwd;
   B: `setarch x86_64 -R`, deep cwd, padded environment block, >= 1 s later) and
   logs {stage, input, opts, env, rc, sha256(output file), sha256(stderr)}.
3. Trace validation: the whole log (one TLC run) is checked against
   BootstrapTrace.tla; every group (input, opts) in which two stages or two
   environments disagree is rejected by TLC.  Doctored groups appended to the log
   are the sensitivity control: TLC must reject exactly those.
Fifth round: Bootstrap.tla carries the build context of a stage (stage 1: the reference compiler's headers and predefined
macros; stages 2, 3: the bundled include/ and chibicc's own) and the corpus has the `vocab` family: every identifier-shaped
string of any stage binary (predefined macros, keywords, builtins ...) shown to the preprocessor of each stage.
Corpus (written into scratch at run time, never committed): chibicc's own *.c,
test/*.c, aggregates of the C08 layout generator, the C13 seed programs
(valid and invalid) and token-level edits of them, C01 expression vectors.
Inputs that use __DATE__/__TIME__/__TIMESTAMP__ are excluded (the property exempts
them; nothing is pinned or faked).
"""
import glob, hashlib, json, os, re, sys, threading, time
sys.path.insert(0, os.path.dirname(os.path.abspath(__file__)))
import vt
from vt import Infra

LEVEL = "exploration"
# input-delivery dimension (strengthening after seeded change C12-7): the same bytes given on the standard input (`-xc -`)
# by redirection from the file, through a pipe in one piece, and through a pipe in two pieces with a pause after N bytes.
# The deliveries play the role of environments in Bootstrap.tla: out[k] must not depend on them.
DELIVERIES = ["in:redir", "in:pipe", "in:split1", "in:split4095", "in:split4097", "in:split6000"]
MODES = ["-S", "-E", "-c"]
FLAGS = ["", "-fPIC", "-fno-common"]
# option sets that write side files / use default output names (strengthening after seeded change C12-2): run in a
# private working directory per (input, option set); every file found there afterwards, and stdout, are digested
SIDE = ["-c -MD -o x.o", "-c -MMD -MF d.d -o x.o", "-c -MD -MT tgt -o x.o", "-c -MD -MP -o x.o", "-S -MD -o x.s",
        "-M", "-M -MP -MT t -MQ a$b", "-c", "-S", "-E"]
ENVS = ["A", "B"]
TMPNAME = re.compile(rb"/tmp/chibicc-[A-Za-z0-9]{6}")


def sha(b):
    return hashlib.sha256(b).hexdigest()[:32]


def uses_time_macros(text):
    t = re.sub(r"/\*.*?\*/", " ", text, flags=re.S)
    t = re.sub(r"//[^\n]*", " ", t)
    t = re.sub(r'"(\\.|[^"\\\n])*"', '""', t)
    return re.search(r"\b__(DATE|TIME|TIMESTAMP)__\b", t) is not None


# ------------------------------------------------------------------ stages
def build_stage(ctx, tree, k):
    """stage k (2 or 3) = every *.c of the tree compiled by stage k-1, linked by cc.
    Returns (digest over the objects, {name: digest}) or None after reporting."""
    comp = "./chibicc" if k == 2 else "./stage%d/chibicc" % (k - 1)
    os.makedirs("%s/stage%d" % (tree, k), exist_ok=True)
    srcs = sorted(os.path.basename(f) for f in glob.glob(tree + "/*.c"))

    def one(src):
        obj = "stage%d/%s.o" % (k, src[:-2])
        cmd = [comp] + (["-I./include"] if k == 3 else []) + ["-c", "-o", obj, src]
        p = vt.run_limited(cmd, timeout=120, cwd=tree)
        return src, obj, p
    objs = {}
    for src, obj, p in vt.pmap(one, srcs, workers=8):
        if p.returncode != 0 or not os.path.exists(tree + "/" + obj):
            ctx.report("build:stage%d:compile:%s" % (k, src),
                       "stage %d does not compile %s (rc=%s): %s" % (k - 1, src, p.returncode, (p.stderr or "")[-300:]),
                       case=dict(kind="build", stage=k, src=src))
            return None
        objs[src] = sha(open(tree + "/" + obj, "rb").read())
    r = vt.sh(["cc", "-o", "stage%d/chibicc" % k] + ["stage%d/%s.o" % (k, s[:-2]) for s in srcs], cwd=tree)
    if r.returncode != 0:
        ctx.report("build:stage%d:link" % k, "objects produced by stage %d do not link: %s" % (k - 1, r.stderr[-400:]),
                   case=dict(kind="build", stage=k, src="link"))
        return None
    return sha(json.dumps(objs, sort_keys=True).encode()), objs


# ------------------------------------------------------------------ corpus
LAYOUT_ALPHA = ["char", "short", "int", "long", "float", "double", "ldouble", "ptr", "char3", "int2", "s_ci", "s_c3",
                "u_lc", "sp_ci", "s16_i", "al8_char", "alS_char", "anon_cs",
                "bf_char_3", "bf_short_9", "bf_int_1", "bf_int_17", "bf_uint_31", "bf_long_33", "bf_long_5",
                "ubf_int_0", "ubf_int_5", "ubf_char_2"]


def layout_file(n):
    """file n of the layout sub-corpus: 8 aggregates, members chosen by index arithmetic over the C08 alphabet"""
    import c08
    A, parts = LAYOUT_ALPHA, []
    for j in range(8):
        x = n * 8 + j
        ms = [A[(x * 7 + 3) % len(A)], A[(x // len(A) + x * 3) % len(A)]] + ([A[(x * 11 + 5) % len(A)]] if x % 3 == 0 else [])
        c = dict(union=x % 5 == 4, packed=x % 4 == 1, aln=[0, 0, 2, 16][x % 4] if x % 7 == 0 else 0, ms=ms)
        if c["union"]:
            c["ms"] = [m for m in ms if not m.startswith("ubf_")] or ["int"]
        parts.append(c08.render_layout_case(x, c))
    return c08.PRELUDE + "".join(parts) + "int main(void) {\n" + "".join(" f%d();\n" % (n * 8 + j) for j in range(8)) + " return 0; }\n"


LEX_FORMS = [("esc_str", b'char s[] = "\\%sx";\n'), ("esc_chr", b"int c = '\\%s';\n"), ("str", b'char s[] = "a%sb";\n'), ("chr", b"int c = '%s';\n"),
             ("ident", b"int a%s = 1;\n"), ("comment", b"int x; /* %s */ // %s\n"), ("ppnum", b"int x = 1%s;\n"), ("pragma", b"#pragma %s\nint x;\n"),
             ("stray", b"int x; %s\n")]


def lex_files():
    """accepted-or-diagnosed garbage-in family (strengthening after seeded change C12-4): every lexer context x every byte
    1..255 except newline, one construct per tiny file (a rejected construct must not hide the next).  Closed domain:
    9 x 254 files -> (name, bytes)."""
    out = []
    for form, tmpl in LEX_FORMS:
        for b in range(1, 256):
            if b == 10:
                continue
            out.append(("lex/%s-%02x" % (form, b), tmpl.replace(b"%s", bytes([b]))))
    return out


LIM_VALUES = ["0", "1", "-1", "2147483647", "2147483648", "-2147483647 - 1", "-2147483649", "4294967295", "4294967296",
              "9223372036854775807", "-9223372036854775807 - 1", "18446744073709551615", "4095", "4096", "4097", "65535", "65536", "63", "64", "65"]
LIM_FORMS = [("enum_next", "enum { A = %s, B, C }; long x = B, y = C;\n"), ("enum_val", "enum { A = %s }; long x = A, n = sizeof(A);\n"),
             ("array_size", "char a[%s]; long n = sizeof a;\n"), ("array2d", "char a[2][%s]; long n = sizeof a;\n"),
             ("shl", "long x = 1L << (%s); int y = 1 << (%s);\n"), ("shr", "long x = -1L >> (%s); unsigned y = 1u >> (%s);\n"),
             ("shl_run", "long f(long v) { return v << (%s); }\n"),
             ("bitfield", "struct { int a : %s; } s; long n = sizeof s;\n"), ("alignas", "_Alignas(%s) char c; long n = _Alignof(c);\n"),
             ("case", "int f(long x) { switch (x) { case %s: return 1; case 5: return 2; } return 0; }\n"),
             ("case_range", "int f(int x) { switch (x) { case 0 ... %s: return 1; } return 0; }\n"),
             ("line", "#line %s\nint x = __LINE__;\n"), ("add", "long x = (%s) + (%s); int y = (%s) + 1;\n"), ("sub", "long x = (%s) - 1; int y = -(%s);\n"),
             ("mul", "long x = (%s) * (%s); int y = (%s) * 2;\n"), ("div", "long x = (%s) / -1; long y = (%s) %% -1;\n"),
             ("int_init", "int i = %s; char c = %s; short s = %s; unsigned u = %s; _Bool b = %s; float f = %s; long l = %s;\n"),
             ("pp_if", "#if (%s) + 1 > 0 && (%s) * 2 != 1\nint x = 1;\n#else\nint x = 2;\n#endif\n"),
             ("index", "int a[4]; int *p = &a[%s]; int f(void) { return a[%s]; }\n"),
             ("desig", "char a[] = { [%s] = 1 };\n"), ("ptr_add", "char *f(char *p) { return p + (%s); } long g(long v) { return v * (%s) + (%s); }\n"),
             ("cast", "long x = (int)(%s) + (char)(%s) + (unsigned short)(%s) + (long)(unsigned)(%s);\n"),
             ("float_conv", "long x = (long)(double)(%s); double d = %s; long y = (long)((%s) * 1.5);\n")]
LIM_SIZES = [0, 1, 2, 4095, 4096, 4097, 65535, 65536]


def lim_files():
    """arithmetic-limit family (strengthening after seeded change C12-6): every construct whose value the compiler computes in
    host arithmetic x values at the limits of int / long / small buffers; one construct per tiny file.  Closed domain."""
    out = []
    for form, tmpl in LIM_FORMS:
        for v in LIM_VALUES:
            if form == "desig" and len(v) > 5:          # an initializer with 10^9 elements only reaches D41 (memory)
                continue
            out.append(("lim/%s@%s" % (form, v.replace(" ", "")), tmpl.replace("%s", v).replace("%%", "%").encode()))
    for n in LIM_SIZES:
        body = "".join(chr(97 + i % 26) for i in range(n))
        out.append(("lim/string@%d" % n, ('char s[] = "%s"; char *p = "%s"; long n = sizeof s;\n' % (body, body)).encode()))
        out.append(("lim/wstring@%d" % n, ('int w[] = L"%s"; long n = sizeof w;\n' % body).encode()))
        out.append(("lim/initcount@%d" % n, ("char a[] = { %s }; long n = sizeof a;\n" % ", ".join("1" for _ in range(n))).encode()))
        out.append(("lim/ident@%d" % n, ("int v%s = 1;\n" % body).encode()))
        out.append(("lim/macro_args@%d" % min(n, 4097), ("#define F(...) 0\nint x = F(%s);\n" % ", ".join("1" for _ in range(min(n, 4097)))).encode()))
        out.append(("lim/line_len@%d" % n, ("int x = 1 %s;\n" % ("+ 1 " * (n // 4))).encode()))
    return out


IDENT_Z = re.compile(rb"(?<![A-Za-z0-9_$])([A-Za-z_][A-Za-z0-9_]{1,48})\x00")
TIME_NAMES = {"__DATE__", "__TIME__", "__TIMESTAMP__"}


def vocab_files(bins, per=48):
    """the compiler's own vocabulary (strengthening after seeded change C12-8): every identifier-shaped, NUL-terminated string in
    any of the stage binaries - the names the compiler knows without the input having declared them: predefined macros, keywords,
    builtins, attribute / pragma names (and symbol names, which are harmless) - each shown to the preprocessor as `"N" N` (the name
    and what it expands to) and inside `#ifdef N`.  A name that only one stage knows (an `#ifdef __GNUC__` branch of the sources)
    or that stages define differently (a value taken from the <float.h> the stage was compiled against) shows as a difference of
    the -E output.  Closed domain: fixed by the tree; the union over the three binaries, so a name only one stage has is in it.
    __DATE__ / __TIME__ / __TIMESTAMP__ are exempt by the property's text.  -> [(name, bytes)], `per` names per file."""
    names = set()
    for b in bins:
        names |= {m.group(1).decode() for m in IDENT_Z.finditer(open(b, "rb").read())}
    names = sorted(names - TIME_NAMES)
    out = []
    for j in range(0, len(names), per):
        body = "".join('"%s" %s\n#ifdef %s\n"%s is defined"\n#endif\n' % (n, n, n, n) for n in names[j:j + per])
        out.append(("vocab/%04d-%s" % (j // per, names[j]), body.encode()))
    return out


def expr_files(ctx, nfiles):
    """C01 vectors (ExprGen.tla, a thin slice of its closed domain) as batched programs; [] if unavailable."""
    try:
        import c01, cexpr
        vec = cexpr.generate(ctx, c01.FAMS, 4000 if ctx.quick else 400, 4000 if ctx.quick else 400, workers=2, name="c12vec", minimum=1)
        vec = [v for v in vec if not v["dz"]]
        per = max(1, len(vec) // nfiles)
        return [c01.mkprog(list(enumerate(vec[j:j + per]))) for j in range(0, len(vec), per)][:nfiles]
    except Exception as e:          # the other check's generator is a convenience, not part of this check
        ctx.assumptions.append("C01 vectors not included in the corpus this run: %s" % str(e)[:120])
        return []


def seed_files(ctx, n_edits):
    """C13 seeds (valid and invalid) + a deterministic sample of single token edits of each."""
    try:
        import c13
        seeds = c13.load_seeds()
    except Exception as e:
        ctx.assumptions.append("C13 seeds not included in the corpus this run: %s" % str(e)[:120])
        return []
    out = []
    for s in seeds:
        out.append(("seed/%s" % s["name"], s["text"]))
        n = len(s["toks"])
        for j in ([ctx.seed % 24] if n_edits == 1 else range(n_edits)):       # quick: one of the 24 edits, by seed
            x = (j * 2654435761 + len(s["name"]) * 97 + n) & 0xffffffff
            kind = ["del", "rep", "ins", "dup", "swap"][x % 5]
            i = (x >> 3) % n + 1
            if kind == "swap" and i >= n:
                kind = "del"
            t = (x >> 9) % len(c13.ALPHABET) + 1
            out.append(("edit/%s~%s%d.%d" % (s["name"], kind, i, t), c13.render(c13.apply_edit(s["toks"], dict(k=kind, i=i, t=t)))))
    return out


def make_corpus(ctx, tree, exprs, bins=None):
    """-> list of dict(name, path, flags, cls).  The domain is closed: the lists below are fixed by
    the tree and by constants; the quick tier takes a VERIF_SEED-selected subsample of the generated part."""
    q, d = ctx.quick, ctx.tmp("corpus")
    items, skipped = [], []

    def add(name, path, flags, cls, side=False):
        if uses_time_macros(open(path, errors="replace").read()):
            skipped.append(name)
            return
        items.append(dict(name=name, path=path, flags=flags, cls=cls, side=side,
                          stdin=side and os.path.getsize(path) > 6100 and (cls == "own" or len([1 for x in items if x.get("stdin") and x["cls"] == cls]) < 6)))
    for f in sorted(glob.glob(tree + "/*.c")):
        add("own/" + os.path.basename(f), f, [], "own", side=True)
    for f in sorted(glob.glob(tree + "/test/*.c")):
        add("test/" + os.path.basename(f), f, ["-I" + tree + "/test", "-I" + tree], "test", side=True)     # -I<tree>: pragma-once.c includes "test/pragma-once.c"
    # hand-written stress family (committed): constructs whose compilation exercises compiler code that depends on
    # unspecified evaluation order / implementation-defined choices of the compiler that built the compiler
    boot = sorted(glob.glob(os.path.join(vt.VERIF, "seeds", "boot", "*.c")))
    if len(boot) < 20:
        raise Infra("seeds/boot has only %d files" % len(boot))
    for f in boot:
        add("boot/" + os.path.basename(f), f, [], "boot", side=True)
    gen = [("layout/%d" % n, layout_file(n)) for n in range(40 if q else 400)]
    gen += [("expr/%d" % j, t) for j, t in enumerate(exprs)]
    gen += seed_files(ctx, 1 if q else 24)
    if q:         # every seed program; a VERIF_SEED-selected half of the layout programs and of the token edits
        keep = [g for g in gen if g[0].startswith("seed/")]
        gen = keep + vt.subsample([g for g in gen if not g[0].startswith("seed/")], ctx.seed, 2)
    for name, text in gen:
        p = "%s/%s.c" % (d, re.sub(r"[^A-Za-z0-9_.~-]", "_", name))
        open(p, "w").write(text)
        add(name, p, [], name.split("/")[0])
        if q and name.startswith(("seed/", "edit/")):
            items[-1]["only"] = list(MODES)       # quick: tiny seed programs under -S / -E / -c only (no -fPIC / -fno-common)
    for name, data in vt.subsample(lex_files(), ctx.seed, 12 if q else 1) + vt.subsample(lim_files(), ctx.seed, 3 if q else 1):
        p = "%s/%s.c" % (d, name.replace("/", "_"))
        open(p, "wb").write(data)
        add(name, p, [], name.split("/")[0])
        items[-1]["only"] = ["-S", "-E"]          # tiny one-construct files: two option sets are enough
    if bins:          # the vocabulary family: all of it in every tier (a few dozen files under -E)
        voc = vocab_files(bins)
        if len(voc) < 5:
            raise Infra("only %d vocabulary files: the stage binaries carry no strings?" % len(voc))
        for name, data in voc:
            p = "%s/%s.c" % (d, re.sub(r"[^A-Za-z0-9_.~-]", "_", name))
            open(p, "wb").write(data)
            add(name, p, [], "vocab")
            items[-1]["only"] = ["-E"]
    ctx.cov["corpus"] = dict(total=len(items), excluded_date_time=skipped,
                             by_class={c: len([1 for x in items if x["cls"] == c]) for c in sorted(set(x["cls"] for x in items))})
    return items


# -------------------------------------------------------------------- runs
def worker_main(jobfile):
    """Executed as `python3 c12.py --worker jobs.json` under vt.run_limited (own process group, RLIMIT_AS /
    RLIMIT_CPU inherited by every compiler process): runs the jobs one after the other, each in its own
    session with a timeout, and writes one result line per job.  Separate worker processes instead of
    threads: forking from a 16-thread Python process costs more than the compiler run itself."""
    import signal, subprocess
    jobs = json.load(open(jobfile))
    with open(jobfile + ".res", "w") as res:
        for j in jobs:
            e = dict(os.environ)
            e.pop("CHIBICC_VERIF_TRACE", None)
            e.update(j["env"])
            sin, feeder = subprocess.DEVNULL, None
            if j.get("stdin"):
                sin = open(j["stdin"]["path"], "rb") if j["stdin"]["kind"] == "redir" else subprocess.PIPE
            p = subprocess.Popen(j["cmd"], cwd=j["cwd"], env=e, stdin=sin,
                                 stdout=subprocess.PIPE if j.get("dir") else subprocess.DEVNULL,
                                 stderr=subprocess.PIPE, start_new_session=True)
            if j.get("stdin") and j["stdin"]["kind"] != "redir":
                def feed(p=p, spec=j["stdin"]):
                    data = open(spec["path"], "rb").read()
                    try:
                        n = spec.get("split") or len(data)
                        p.stdin.write(data[:n])
                        p.stdin.flush()
                        if n < len(data):
                            time.sleep(0.25)              # the writer has not delivered the rest yet
                            p.stdin.write(data[n:])
                        p.stdin.close()
                    except (BrokenPipeError, OSError):
                        pass
                import threading as _th
                feeder = _th.Thread(target=feed)
                feeder.start()
            out = b""
            try:
                if feeder:          # communicate() would close stdin under the feeder: read stderr ourselves
                    killed = []

                    def kill(p=p):
                        killed.append(1)
                        try:
                            os.killpg(p.pid, signal.SIGKILL)
                        except ProcessLookupError:
                            pass
                    wd = _th.Timer(j["timeout"], kill)
                    wd.start()
                    err = p.stderr.read()
                    p.wait()
                    wd.cancel()
                    feeder.join()
                    if killed:
                        raise subprocess.TimeoutExpired(j["cmd"], j["timeout"])
                else:
                    out, err = p.communicate(timeout=j["timeout"])
                rc = p.returncode
            except subprocess.TimeoutExpired:
                try:
                    os.killpg(p.pid, signal.SIGKILL)
                except ProcessLookupError:
                    pass
                if feeder:
                    err = b""
                    p.wait()
                else:
                    out, err = p.communicate()
                rc = -999
            if j.get("dir"):          # every file the run left in its private directory (name and bytes) + stdout
                parts, n = [("<stdout>", sha(out or b""))], len(out or b"")
                for fn in sorted(os.listdir(j["dir"])):
                    b = open(os.path.join(j["dir"], fn), "rb").read()
                    os.unlink(os.path.join(j["dir"], fn))
                    parts.append((fn, sha(b)))
                    n += len(b)
                data, osha = b"x" * min(n, 1), sha(json.dumps(parts).encode())
            else:
                try:
                    data = open(j["out"], "rb").read()
                    os.unlink(j["out"])
                    osha = sha(data)
                except OSError:
                    data, osha = b"", "absent"
            err = TMPNAME.sub(b"/tmp/chibicc-XXXXXX", err or b"")
            res.write(json.dumps(dict(id=j["id"], rc=rc, sha=osha, err=sha(err)[:16], n=len(data),
                                      head=err[:200].decode(errors="replace"))) + "\n")
            res.flush()


class Runner:
    def __init__(self, ctx, tree):
        self.ctx, self.tree = ctx, tree
        self.bins = {1: tree + "/chibicc", 2: tree + "/stage2/chibicc", 3: tree + "/stage3/chibicc"}
        self.cwd = {"A": ctx.tmp("envA"), "B": ctx.tmp("envB/deeper/and/deeper/still/cwd")}
        self.outd = ctx.tmp("out")
        self.sided = ctx.tmp("side")
        self.jobd = ctx.tmp("jobs")
        self.n = 0
        self.nb = 0

    def job(self, item, mode, flag, stage, env, gid=0):
        self.n += 1
        if mode == "stdin":           # env is the delivery; flag is -S / -E; cwd = the input's directory (its #include "..." must resolve)
            out = "%s/o%d" % (self.outd, self.n)
            cmd = [self.bins[stage]] + item["flags"] + ["-I" + self.tree + "/include", flag, "-o", out, "-xc", "-"]
            kind = env.split(":")[1]
            spec = dict(path=item["path"], kind="redir" if kind == "redir" else "pipe", split=int(kind[5:]) if kind.startswith("split") else 0)
            return dict(id=self.n, cmd=cmd, cwd=os.path.dirname(item["path"]), gid=gid, env={}, out=out, timeout=60, stdin=spec)
        if mode == "side":
            d = "%s/g%d" % (self.sided, gid)
            os.makedirs(d, exist_ok=True)
            cmd = [self.bins[stage]] + item["flags"] + ["-I" + self.tree + "/include"] + flag.split() + [item["path"]]
            if env == "B":
                cmd = ["setarch", "x86_64", "-R"] + cmd
            return dict(id=self.n, cmd=cmd, cwd=d, dir=d, gid=gid, env={"C12_PAD": "x" * 3001} if env == "B" else {}, out="", timeout=60)
        cmd = [self.bins[stage]] + item["flags"] + ["-I" + self.tree + "/include", mode] + ([flag] if flag else []) + \
              ["-o", "%s/o%d" % (self.outd, self.n), item["path"]]
        if env == "B":
            cmd = ["setarch", "x86_64", "-R"] + cmd
        # -c: `as` records its working directory in .debug_line (so does gcc's); the cwd is an input of the
        # assembler, not of chibicc, and is therefore kept equal for -c
        cwd = self.cwd["A" if mode == "-c" else env]
        return dict(id=self.n, cmd=cmd, cwd=cwd, gid=gid, env={"C12_PAD": "x" * 3001} if env == "B" else {},
                    out="%s/o%d" % (self.outd, self.n), timeout=60)

    def run_many(self, work, env, gids=None):
        """work: list of (item, mode, flag, stage) -> list of (event, output size, stderr head).
        The runs of one group (gid) go to one worker, in order: side-file groups share a private directory."""
        gids = gids or list(range(len(work)))
        envs = env if isinstance(env, list) else [env] * len(work)          # one environment for all, or one per run
        jobs = [self.job(it, m, f, st, e, g) for (it, m, f, st), g, e in zip(work, gids, envs)]
        nw = min(vt.NCPU, max(1, len(jobs) // 8))
        files = []
        for w in range(nw):
            self.nb += 1
            jf = "%s/j%d.json" % (self.jobd, self.nb)
            json.dump([j for j in jobs if j["gid"] % nw == w], open(jf, "w"))
            files.append(jf)

        def one(jf):
            p = vt.run_limited(["python3", os.path.abspath(__file__), "--worker", jf], timeout=1700, mem_gb=4, cpu_s=3000)
            rows = vt.read_ndjson(jf + ".res")
            return rows, p
        got = {}
        for rows, p in vt.pmap(one, files, workers=nw):
            for r in rows:
                got[r["id"]] = r
        if len(got) != len(jobs):
            raise Infra("run workers returned %d of %d results" % (len(got), len(jobs)))
        return [(dict(e="run", stage=st, env=e, rc=got[j["id"]]["rc"], sha=got[j["id"]]["sha"], err=got[j["id"]]["err"]),
                 got[j["id"]]["n"], got[j["id"]]["head"]) for j, (it, m, f, st), e in zip(jobs, work, envs)]

    def groups_of_keys(self, keys, label):
        """all runs of every (input, mode, flag) group; environment A first, B at least one second later;
        groups of the input-delivery dimension (mode "stdin") run once per delivery instead"""
        sk = [ki for ki, k in enumerate(keys) if k[1] == "stdin"]
        if sk:
            nk = [ki for ki, k in enumerate(keys) if k[1] != "stdin"]
            out = [None] * len(keys)
            for ki, g in zip(nk, self.groups_of_keys([keys[ki] for ki in nk], label) if nk else []):
                out[ki] = g
            res = {}
            work = [(keys[ki][0], "stdin", keys[ki][2], st) for ki in sk for dv in DELIVERIES for st in (1, 2, 3)]
            idx = [ki for ki in sk for dv in DELIVERIES for st in (1, 2, 3)]
            dvs = [dv for ki in sk for dv in DELIVERIES for st in (1, 2, 3)]
            for ki, r in zip(idx, self.run_many(work, dvs, idx)):
                res.setdefault(ki, []).append(r)
            self.ctx.phase("%s: standard-input deliveries done (%d runs)" % (label, len(sk) * 3 * len(DELIVERIES)))
            for ki in sk:
                out[ki] = (keys[ki], res[ki])
            return out
        res = {}
        for env in ENVS:
            t0 = time.time()
            work = [(k[0], k[1], k[2], st) for k in keys for st in (1, 2, 3)]
            idx = [ki for ki, k in enumerate(keys) for st in (1, 2, 3)]
            for ki, r in zip(idx, self.run_many(work, env, idx)):
                res.setdefault(ki, []).append(r)
            if env == "A":
                time.sleep(max(0.0, 1.1 - (time.time() - t0)))
            self.ctx.phase("%s: runs in environment %s done (%d)" % (label, env, len(work)))
        return [(keys[ki], res[ki]) for ki in range(len(keys))]

    def groups(self, items, label):
        keys = [(it, m, f) for it in items for m in MODES for f in FLAGS if not it.get("only") or (m in it["only"] and not f)]
        keys += [(it, "side", o) for it in items if it.get("side") for o in SIDE]
        keys += [(it, "stdin", m) for it in items if it.get("stdin") for m in ("-S", "-E")]
        return self.groups_of_keys(keys, label)


def opts_of(mode, flag):
    if mode == "side":
        return flag + "  [private cwd, all files]"
    if mode == "stdin":
        return flag + " -xc -  [standard input]"
    return mode + (" " + flag if flag else "")


def to_events(groups):
    evs, owner = [], []
    for gi, ((it, mode, flag), runs) in enumerate(groups):
        evs.append(dict(e="key", input=it["name"], opts=opts_of(mode, flag)))
        owner.append(gi)
        for r, _, _ in runs:
            evs.append(r)
            owner.append(gi)
    return evs, owner


def tlc_validate(ctx, head, evs, label, count=True):
    """-> indices (into evs) of the rejected events"""
    tf = os.path.join(ctx.scratch, "boot-%s.ndjson" % label)
    vt.write_ndjson(tf, head + evs + [dict(e="eof")])
    out = tf + ".rej"
    ctx.tlc("boot", "BootstrapTrace", "BootstrapTrace.cfg", env=dict(TRACE=tf, OUT=out), workers=1, timeout=1500, count=count, heap="4g")
    rows = vt.read_ndjson(out)
    if not rows:
        raise Infra("trace validation %s did not reach the end of the log" % label)
    return [r["at"] - 1 - len(head) for r in rows[-1]["rejected"]]


def disagreement(runs):
    """name the kind of disagreement inside one group (for the signature)"""
    by = {(r["stage"], r["env"]): (r["rc"], r["sha"], r["err"]) for r, _, _ in runs}
    kinds = []
    envs = sorted({r["env"] for r, _, _ in runs})
    for e in envs:
        for a, b in ((1, 2), (2, 3), (1, 3)):
            if (a, e) in by and (b, e) in by and by[(a, e)] != by[(b, e)]:
                kinds.append("stage%d!=stage%d" % (a, b))
                break
        if kinds:
            break
    for k in (1, 2, 3):
        if len({by[(k, e)] for e in envs if (k, e) in by}) > 1:
            kinds.append("env:stage%d" % k)
            break
    what = set()
    for x in by.values():
        for y in by.values():
            what |= {n for n, u, v in zip(("status", "output", "stderr"), x, y) if u != v}
    return "+".join(kinds) or "none", "+".join(sorted(what))


def controls(groups):
    """doctored copies of accepted groups: TLC must reject every one of them"""
    out = []
    src = [g for g in groups if len(g[1]) == 6][:3]
    for j, ((it, mode, flag), runs) in enumerate(src):
        runs = [(dict(r), n, e) for r, n, e in runs]
        if j == 0:
            runs[1][0]["sha"] = "0" * 32                      # stage 2 writes other bytes
        elif j == 1:
            r = [x for x in runs if x[0]["stage"] == 3 and x[0]["env"] == "B"][0][0]
            r["rc"] = r["rc"] + 1                                # stage 3 exits differently in environment B only
        else:
            r = [x for x in runs if x[0]["stage"] == 1 and x[0]["env"] == "B"][0][0]
            r["err"] = "f" * 16                                  # stage 1's diagnostics depend on the environment
        out.append(((dict(it, name="control%d:" % j + it["name"]), mode, flag), runs))
    return out


def judge(ctx, runner, head, groups, label, rerun=True):
    ctl = controls(groups)
    evs, owner = to_events(groups + ctl)
    rej = tlc_validate(ctx, head, evs, label)
    bad_build = [i for i in rej if i < 0]
    rejg = sorted({owner[i] for i in rej if i >= 0})
    nctl = [g for g in rejg if g >= len(groups)]
    if len(ctl) < 3 or len(nctl) != len(ctl):
        raise Infra("sensitivity control failed: TLC rejected %d of %d doctored groups" % (len(nctl), len(ctl)))
    rejg = [g for g in rejg if g < len(groups)]
    ctx.cov["trace_events"] = ctx.cov.get("trace_events", 0) + len(evs)
    ctx.cov["groups_rejected_first_pass"] = ctx.cov.get("groups_rejected_first_pass", 0) + len(rejg)
    if rejg and rerun:
        # a rejection must repeat: run the rejected groups again (both environments) and validate again
        sel = rejg[:60]
        again = runner.groups_of_keys([groups[g][0] for g in sel], label + "-again")
        evs2, owner2 = to_events(again + controls(groups))
        rej2 = {owner2[i] for i in tlc_validate(ctx, head, evs2, label + "-again", count=False) if i >= 0}
        still = [(sel[j], again[j]) for j in range(len(sel)) if j in rej2]
        ctx.cov["rejections_not_repeated"] = ctx.cov.get("rejections_not_repeated", 0) + len(sel) - len(still)
        rejg_final = still + [(g, groups[g]) for g in rejg[60:]]
    else:
        rejg_final = [(g, groups[g]) for g in rejg]
    for g, ((it, mode, flag), runs) in rejg_final:
        kind, what = disagreement(runs)
        if any(r["rc"] == -999 for r, _, _ in runs):
            ctx.cov["timeouts_ignored"] = ctx.cov.get("timeouts_ignored", 0) + 1
            continue
        ctx.report("fixpoint:%s:%s:%s:%s" % (kind, mode, it["cls"], what),
                   "%s %s: %s differ: %s" % (it["name"], opts_of(mode, flag), what,
                                             [(r["stage"], r["env"], r["rc"], r["sha"][:8], e[:60]) for r, _, e in runs]),
                   case=dict(kind="group", name=it["name"], cls=it["cls"], flags=[f.replace(runner.tree, "$TREE") for f in it["flags"]],
                             mode=mode, flag=flag, text=open(it["path"], errors="replace").read()[:200000], runs=[r for r, _, _ in runs]))
    return bad_build


# --------------------------------------------------------------------- run
def model_check(ctx, errors):
    try:
        ctx.tlc_expect_ok("boot", "Bootstrap", "Bootstrap_mc.cfg", "the bootstrap monitor's properties fail although every stage behaves as the source semantics", workers=2)
        for p in ("StageAgree", "EnvIndep", "ObjFix"):
            r = ctx.tlc("boot", "Bootstrap", "Bootstrap_ctl_%s.cfg" % p, workers=1, count=False)
            if r.ok:
                raise Infra("sensitivity control failed: TLC accepts arbitrary stage behaviours under %s" % p)
        # a source text whose meaning depends on the context it is compiled in (host headers vs the bundled ones): stage 1 differs from
        # stages 2 = 3.  StageAgree must be violated, and the stage2-vs-stage3 comparisons alone must NOT be (that is why the
        # corpus has to reach the context-dependent parts and compare with stage 1)
        r = ctx.tlc("boot", "Bootstrap", "Bootstrap_ctl_CtxDep.cfg", workers=1, count=False)
        if r.ok:
            raise Infra("sensitivity control failed: TLC accepts context-dependent sources under StageAgree")
        ctx.tlc_expect_ok("boot", "Bootstrap", "Bootstrap_ctl_CtxDep_self.cfg", "context-dependent sources break the stage-2 = stage-3 comparisons in the model (they should only break the comparison with stage 1)", workers=2)
    except BaseException as e:
        errors.append(e)


def stages(ctx, tree):
    head = [dict(e="build", stage=1, by="cc", objs="-")]
    objs = {}
    for k in (2, 3):
        b = build_stage(ctx, tree, k)
        if b is None:
            return None, objs
        head.append(dict(e="build", stage=k, by=k - 1, objs=b[0]))
        objs[k] = b[1]
    return head, objs


def run(ctx):
    q = ctx.quick
    errors = []
    th = threading.Thread(target=model_check, args=(ctx, errors))
    th.start()
    exprs = []
    th2 = threading.Thread(target=lambda: q or exprs.extend(expr_files(ctx, 40)))
    th2.start()
    tree = ctx.build()
    head, objs = stages(ctx, tree)
    ctx.phase("stages built")
    ctx.assumptions += [
        "stage 1 is built by cc with -DCHIBICC_VERIF (hooks compiled in, inert without CHIBICC_VERIF_TRACE); stages 2 and 3 are compiled without the guard, exactly as the Makefile's stage2 rule does, so verif_trace.c is an empty translation unit in them",
        "inputs using __DATE__/__TIME__/__TIMESTAMP__ are excluded (nothing is pinned or faked)",
        "the random part of the driver's temporary name (/tmp/chibicc-XXXXXX) is masked in stderr before hashing",
        "environments differ in ASLR (setarch -R), cwd depth, size of the environment block, pid and time (>= 1 s); nothing else is varied",
        "cc and the system assembler/linker are trusted to be deterministic"]
    rule = ("case = one (input, option set) group: the input is compiled by stage 1, 2 and 3 in environments A and B (6 runs) and TLC checks the "
            "6 observations (exit status, sha256 of the output file, sha256 of stderr) against BootstrapTrace.tla; inputs = chibicc's own sources, "
            "test/*.c, and a closed enumerated list of generated programs (C08 layout aggregates, C01 vectors, C13 seeds and single-token edits of them), "
            "quick = VERIF_SEED-selected subsample; non-trivial = the compiler exited 0 and wrote a non-empty output; distinct = distinct (mode, output digest)")
    if head is None:
        th.join()
        th2.join()
        return ctx.finish(rule=rule, exhaustive=False)
    if objs[2] != objs[3]:
        diff = sorted(s for s in objs[2] if objs[2][s] != objs[3].get(s))
        ctx.report("fixpoint:objs:stage2!=stage3:%s" % diff[0], "stage-2 and stage-3 objects differ: %s" % diff,
                   case=dict(kind="build", stage=3, src=diff[0]))
    th2.join()
    runner = Runner(ctx, tree)
    items = make_corpus(ctx, tree, exprs, bins=[tree + "/chibicc", tree + "/stage2/chibicc", tree + "/stage3/chibicc"])
    ctx.phase("corpus written (%d inputs)" % len(items))
    groups = runner.groups(items, "corpus")
    bad_build = judge(ctx, runner, head, groups, "corpus")
    if bad_build and objs[2] == objs[3]:
        raise Infra("TLC rejected a build event although the object digests are equal")
    ctx.phase("log validated")
    for (it, mode, flag), runs in groups:
        r, n, _ = runs[0]
        ctx.note_case("%s|%s" % (mode, r["sha"]), nontrivial=r["rc"] == 0 and n > 0)
    ctx.cov["traces_validated_against_impl"] += len(groups)
    ctx.cov["runs"] = sum(len(r) for _, r in groups)
    for (it, mode, flag), runs in groups[:: max(1, len(groups) // 5)][:5]:
        ctx.sample(dict(input=it["name"], opts=opts_of(mode, flag), observations=[r for r, _, _ in runs]))
    th.join()
    if errors:
        raise errors[0]
    return ctx.finish(rule=rule, exhaustive=not q, extra=dict(stage_objects={k: len(v) for k, v in objs.items()}))


def replay(ctx, path):
    c = json.load(open(os.path.join(path, "case.json")))
    c = c.get("case") or c
    tree = ctx.build()
    head, objs = stages(ctx, tree)
    if head is None:
        return ctx.finish(rule="replay of one recorded case")
    if c.get("kind") == "build":
        if objs[2] != objs[3]:
            diff = sorted(s for s in objs[2] if objs[2][s] != objs[3].get(s))
            ctx.report("fixpoint:objs:stage2!=stage3:%s" % diff[0], "stage-2 and stage-3 objects differ: %s" % diff, case=c)
        return ctx.finish(rule="replay of one recorded case")
    d = ctx.tmp("corpus")
    p = "%s/%s.c" % (d, re.sub(r"[^A-Za-z0-9_.~-]", "_", c["name"]))
    if c["cls"] in ("lex", "lim"):
        open(p, "wb").write(dict(lex_files() + lim_files())[c["name"]])
    elif c["cls"] == "vocab":
        open(p, "wb").write(c["text"].encode())
    elif c["cls"] == "boot":
        p = os.path.join(vt.VERIF, "seeds", c["name"])
    elif c["cls"] in ("own", "test"):
        p = "%s/%s" % (tree, c["name"].replace("own/", ""))
    else:
        open(p, "w").write(c["text"])
    it = dict(name=c["name"], path=p, flags=[f.replace("$TREE", tree) for f in c["flags"]], cls=c["cls"])
    runner = Runner(ctx, tree)
    # three neutral companions so that the doctored-group control has material
    comp = [dict(name="replay/companion%d" % j, path="%s/companion%d.c" % (d, j), flags=[], cls="replay") for j in range(3)]
    for j, x in enumerate(comp):
        open(x["path"], "w").write("int f%d(int a) { return a + %d; }\n" % (j, j))
    groups = runner.groups_of_keys([(x, "-S", "") for x in comp] + [(it, c["mode"], c["flag"])], "replay")
    judge(ctx, runner, head, groups, "replay", rerun=False)
    ctx.cov["traces_validated_against_impl"] += 1
    return ctx.finish(rule="replay of one recorded case")


if __name__ == "__main__":
    import sys
    if len(sys.argv) == 3 and sys.argv[1] == "--worker":
        worker_main(sys.argv[2])
