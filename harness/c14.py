"""C14 — driver process discipline under failure and concurrency.

1. TLC, exhaustive: tla/driver/Driver.tla — every command shape (-E/-S/-c/link x -o/none x
   1..3 inputs of kinds .c/.s/.o) x every single fault (k-th cc1/as/ld dies by exit status or
   by signal or cannot be started, missing input, input rejected by the parser / only by the
   code generator, an input the driver itself rejects (unknown extension) after earlier ones were
   compiled, an input that is a directory / cannot be opened, uncreatable -o path (no such
   directory / -o names a directory), every option that takes an argument given last without it
   or with a harmless argument in the separate-word form, an unreadable -include file), one driver (with termination under fairness) and two drivers
   interleaved in one directory; invariants P1..P5.
   P6: a command naming an unreadable input it consumes, or an option without its argument, does not exit 0.
   Sensitivity controls: the model whose front end reads a directory as an empty file / that does not check
   option arguments / without cleanup / with cleanup by explicit calls instead of an
   exit handler / without the wait-status check / with an unbuffered front end / with predictable
   temporary names / with the pinned tree's routing must each be rejected by TLC (else the
   invariants are vacuous -> exit 2).
2. Generate -> replay: every terminated single-driver behaviour of the model is one
   (command, directory, fault plan); it is executed with the real driver of the tree under
   test in a scratch directory.  Faults are injected without touching chibicc: harness/c/c14_shim.c
   is installed as `as` and `ld` first on PATH (run_subprocess uses execvp) and as the command
   itself (run_cc1 re-executes argv[0]), and dies on the k-th call or delegates to the real tool.
3. Trace validation: each run is recorded with `strace -f`, turned into the events of
   DriverTrace.tla and checked by TLC to be a behaviour of Driver.tla under the same fault
   plan, including the exit code, the final directory listing and surviving /tmp/chibicc-*.
   Two real drivers are also run concurrently in one directory (P5 on traces and final state).
"""
import json, os, re, shutil, subprocess, threading
import vt
from vt import Infra

MAXIN = 3
OLD = b"OLD CONTENT\n"
KINDS = ("c", "s", "o")
STRACE = [shutil.which("strace") or "strace", "-f", "-s", "8192", "-e", "trace=execve,openat,open,creat,unlink,unlinkat,rename,renameat,renameat2,wait4,exit_group"]


# Driver.tla ArgOpts (same order): the options of parse_args() that take an argument as a separate word, each with a
# harmless argument ("val": the command must behave exactly as without the option).  AUX = a directory outside the
# watched one holding an empty directory `inc` and an empty header `good.h`.
ARGOPTS = ["-o", "-I", "-idirafter", "-include", "-x", "-MF", "-MT", "-Xlinker", "-D", "-U", "-MQ", "-L"]
OPTVAL = {"-I": "AUX/inc", "-idirafter": "AUX/inc", "-include": "AUX/good.h", "-x": "none", "-MF": "AUX/dep.d", "-MT": "tgt", "-Xlinker": "--as-needed",
          "-D": "X=1", "-U": "X", "-MQ": "tgt", "-L": "AUX/inc"}


def make_aux(rundir):
    aux = os.path.join(rundir, "aux")
    os.makedirs(aux + "/inc", exist_ok=True)
    open(aux + "/good.h", "w").close()
    return aux


def family(b):
    """the fourth-round fault families, for the signature of a rejected run ('' for the older ones)"""
    f, df = b["fault"], b["df"]
    if f["t"] == "opt":
        return "opt(%s)=%s:" % (ARGOPTS[f["k"] - 1], f["how"])
    if f["t"] == "unwritable" and f["how"] == "isdir":
        return "-o=dir:"
    if df["t"] in ("isdir", "eloop"):
        return "in.%s=%s:" % (b["ins"][df["i"] - 1], "dir" if df["t"] == "isdir" else "loop")
    return ""


def user_paths():
    return ["in%d.%s" % (i, k) for i in range(1, MAXIN + 1) for k in KINDS + ("x",)] + ["a.out", "out1"]


def eff_kinds(b):
    """kinds as named on the command line: position df.i has the unknown extension .x under unkext"""
    return ["x" if b["df"]["t"] == "unkext" and b["df"]["i"] == i else k for i, k in enumerate(b["ins"], 1)]


# ------------------------------------------------------------------ inputs
def c_text(i, bad=False, e_mode=False):
    """bad = "bad": rejected by the parser (under -E: by the preprocessor);
    bad = "badgen": valid syntax and types, rejected only inside codegen() (codegen.c gen_addr:
    "not an lvalue"), after the functions before it have been emitted; an ordinary source under -E"""
    if bad == "bad" or bad is True:
        return "#error bad input %d\n" % i if e_mode else "int f%d(void) { return %d +; }}\n" % (i, i)
    t = "int f%d(void) { return %d; }\n" % (i, i)
    if i == 1 and not e_mode:
        t += "int main(void) { return 0; }\n"
    if bad == "badgen":
        t += "void h%d(void) { 1 = f%d(); }\n" % (i, i)
    return t


def s_text(i, bad=False):
    if bad:
        return "  bogus_insn %%rax, %d\n" % i
    t = '.globl f%d\nf%d:\n  mov $%d, %%eax\n  ret\n' % (i, i, i)
    if i == 1:
        t += '.globl main\nmain:\n  xor %eax, %eax\n  ret\n'
    return t + '.section .note.GNU-stack,"",@progbits\n'


class Inputs:
    """contents of in<i>.<kind>, good and erroneous; objects are made once with the system cc"""

    def __init__(self, ctx):
        d = ctx.tmp("objs")
        self.obj = {}
        for i in range(1, MAXIN + 1):
            src = "%s/o%d.c" % (d, i)
            open(src, "w").write(c_text(i))
            r = vt.sh(["cc", "-c", "-o", "%s/o%d.o" % (d, i), src])
            if r.returncode:
                raise Infra("cc -c failed for the .o inputs: " + r.stderr[-500:])
            self.obj[i] = open("%s/o%d.o" % (d, i), "rb").read()

    def content(self, i, kind, mode, bad):
        if mode == "E":                      # -E: every input is C text whatever its suffix
            return c_text(i, bad, True).encode()
        if kind in ("c", "x"):               # in<i>.x: C text behind an extension the driver does not know
            return c_text(i, bad).encode()
        if kind == "s":
            return s_text(i, bad).encode()
        return b"this is not an object file (\n" if bad else self.obj[i]


def build_shim(ctx):
    d = ctx.tmp("shim")
    r = vt.sh(["cc", "-O1", "-o", d + "/chibicc", os.path.join(vt.VERIF, "harness/c/c14_shim.c")])
    if r.returncode:
        raise Infra("shim build failed: " + r.stderr[-1000:])
    for n in ("as", "ld"):
        shutil.copy2(d + "/chibicc", d + "/" + n)
    real = {}
    for n in ("as", "ld"):
        p = shutil.which(n)
        if not p:
            raise Infra("no system " + n)
        real[n] = p
    return d, real


# ------------------------------------------------------------- strace -> events
LINE = re.compile(r"^(\d+)\s+(.*)$")
STR = re.compile(r'"((?:[^"\\]|\\.)*)"')


def unesc(s):
    return s.encode().decode("unicode_escape") if "\\" in s else s


class Normalizer:
    def __init__(self, cwd):
        self.cwd = os.path.realpath(cwd)
        self.tmp = {}            # raw /tmp/chibicc-XXXXXX -> t<n>
        self.made = set()        # every /tmp/chibicc-* a process of this run opened for writing

    def mk(self, raw):
        if raw not in self.tmp:
            self.tmp[raw] = "t%d" % (len(self.tmp) + 1)
        return self.tmp[raw]

    def __call__(self, p):
        """watched path -> model name; None = not watched (system files, the shim's counters)"""
        if p.startswith("/tmp/chibicc-"):
            return self.tmp.get(p, "foreign:" + p)
        if p.startswith("/"):
            rp = os.path.normpath(p)
            if rp.startswith(self.cwd + "/"):
                p = rp[len(self.cwd) + 1:]
            else:
                return None
        p = os.path.normpath(p)
        if p.startswith("nodir/"):
            p = p[6:]
        return p


def wstatus(txt):
    m = re.search(r"WIFEXITED\(s\) && WEXITSTATUS\(s\) == (\d+)", txt)
    if m:
        return "ok" if m.group(1) == "0" else "exit", int(m.group(1))
    if "WIFSIGNALED" in txt:
        return "signal", -1
    return "unknown", -1


def child_exec_event(args, norm):
    """tool, inputs, output of a child from its argv"""
    base = os.path.basename(args[0])
    if "-cc1" in args:
        tool = "cc1"
        ins = [args[i + 1] for i, a in enumerate(args[:-1]) if a == "-cc1-input"]
        out = [args[i + 1] for i, a in enumerate(args[:-1]) if a == "-cc1-output"]
        if not out:
            out = [args[i + 1] for i, a in enumerate(args[:-1]) if a == "-o"] or [a[2:] for a in args if a.startswith("-o") and len(a) > 2]
        out = out[-1] if out else "-"
    elif base == "as":
        tool = "as"
        out = [args[i + 1] for i, a in enumerate(args[:-1]) if a == "-o"]
        out = out[-1] if out else "a.out"
        ins = [a for j, a in enumerate(args[1:], 1) if not a.startswith("-") and args[j - 1] != "-o"]
    elif base == "ld":
        tool = "ld"
        out = [args[i + 1] for i, a in enumerate(args[:-1]) if a == "-o"]
        out = out[-1] if out else "a.out"
        ins = []
        for j, a in enumerate(args[1:], 1):
            if a.startswith("-") or args[j - 1] in ("-o", "-m", "-dynamic-linker", "-L"):
                continue
            if a.startswith("/") and not a.startswith("/tmp/chibicc-") and norm(a) is None:
                continue                                    # crt files
            ins.append(a)
    else:
        return dict(e="exec", tool="other:" + base, ins=[], out="-")
    return dict(e="exec", tool=tool, ins=[norm(x) or x for x in ins], out="-" if out == "-" else (norm(out) or out))


def parse_strace(text, cwd):
    """-> (events, info); events in the order strace saw them"""
    norm = Normalizer(cwd)
    evs = []
    driver = None
    kids = {}                     # pid -> dict(execd, reads, writes, unlinks)
    pending = {}                  # pid -> unfinished text
    done = False
    shim_trouble = False
    for raw in text.splitlines():
        m = LINE.match(raw)
        if not m:
            continue
        pid, rest = int(m.group(1)), m.group(2)
        if rest.endswith("<unfinished ...>"):
            pending[pid] = rest[:-len("<unfinished ...>")]
            continue
        m2 = re.match(r"<\.\.\. (\w+) resumed>(.*)$", rest)
        if m2:
            rest = pending.pop(pid, m2.group(1) + "(") + m2.group(2)
        if driver is None:
            if rest.startswith("execve(") and rest.rstrip().endswith("= 0"):
                driver = pid
                evs.append(dict(e="start"))
            continue
        isdrv = pid == driver
        k = kids.setdefault(pid, dict(execd=False, tried=None, reads=[], writes=[], unlinks=[])) if not isdrv else None
        if rest.startswith("+++ exited with") or rest.startswith("+++ killed by"):
            if isdrv and not done:
                done = True
                mm = re.match(r"\+\+\+ exited with (\d+)", rest)
                evs.append(dict(e="exit", code=int(mm.group(1)) if mm else -1))
                if mm and mm.group(1) == "98":
                    shim_trouble = True
            continue
        if rest.startswith("---"):
            continue
        call = rest.split("(", 1)[0]
        res = rest.rsplit("=", 1)[-1].strip() if "=" in rest else ""
        ok = not res.startswith("-1")
        strs = [unesc(x) for x in STR.findall(rest.rsplit(")", 1)[0])]
        if call == "execve":
            if not ok and not isdrv and not k["execd"] and k["tried"] is None:
                k["tried"] = strs[1:] or strs       # what the child wanted to become (kept in case no attempt succeeds)
            if not ok or isdrv:
                continue            # PATH search misses; the shim becoming the real driver
            if not k["execd"]:
                k["execd"] = True
                evs.append(child_exec_event(strs[1:], norm))
            continue
        if call in ("openat", "open", "creat"):
            if not strs:
                continue
            path = strs[0]
            flags = rest
            wr = call == "creat" or "O_WRONLY" in flags or "O_RDWR" in flags or "O_CREAT" in flags
            if wr and ok and path.startswith("/tmp/chibicc-"):
                norm.made.add(path)
            if isdrv:
                if path.startswith("/tmp/chibicc-") and "O_EXCL" in flags and ok:
                    evs.append(dict(e="mkstemp", n=norm.mk(path)))
                else:
                    n = norm(path)
                    if n is not None and wr and ok:
                        evs.append(dict(e="drvopen", p=n))        # the driver itself never opens a watched file
                continue
            n = norm(path)
            if n is None:
                continue
            if wr:
                if ok and n not in k["writes"]:
                    k["writes"].append(n)
            elif ok and n not in k["reads"]:       # a failed open (missing input, library search) touches nothing
                k["reads"].append(n)
            continue
        if call in ("unlink", "unlinkat"):
            if not strs or (not ok and not isdrv):      # the driver's unlink attempt is its step even if `as` removed the file already
                continue
            n = norm(strs[0])
            if n is None:
                continue
            if isdrv:
                evs.append(dict(e="unlink", p=n))
            elif n not in k["unlinks"]:
                k["unlinks"].append(n)
            continue
        if call in ("rename", "renameat", "renameat2"):
            for s in strs:
                n = norm(s)
                if n is not None:
                    (evs.append(dict(e="drvopen", p=n)) if isdrv else k["writes"].append(n))
            continue
        if call == "wait4" and isdrv:
            mm = re.search(r"=\s*(\d+)\s*$", rest)
            if not mm:
                continue            # ECHILD
            cpid = int(mm.group(1))
            st, n = wstatus(rest)
            c = kids.get(cpid, dict(reads=[], writes=[], unlinks=[]))
            if c.get("tried") and not c.get("execd"):
                # a child that never became a program (fork+execvp failing, or posix_spawn's helper):
                # the step could not be started; how the driver learns it is its own business
                evs.append(dict(child_exec_event(c["tried"], norm), e="execfail"))
                continue
            evs.append(dict(e="run", reads=c["reads"], writes=c["writes"], unlinks=c["unlinks"]))
            evs.append(dict(e="wait", status=st))
            if n == 98:
                shim_trouble = True
            continue
    return evs, dict(tmp=dict(norm.tmp), made=sorted(norm.made), driver=driver, done=done, shim_trouble=shim_trouble)


# ------------------------------------------------------------------ one run
def classify(data, orig):
    if orig is not None and data == orig[0]:
        return orig[1]
    if data == OLD:
        return "old"
    if len(data) == 0:
        return "T"
    if data[:4] == b"\x7fELF" and len(data) > 18:
        return "O" if data[16] == 1 else "X"
    if b".file" in data[:200] or b".globl" in data or b".text" in data:
        return "S"
    return "E"


def beh_key(b):
    f, df = b["fault"], b["df"]
    return "%s%s:%s:%s:%s%s:%s%s%s" % (b["mode"], "+o" if b["o"] else "", "".join(b["ins"]), b["pre"], df["t"], df["i"], f["t"], f["k"], f["how"])


def argv_of(b, d=1, aux="AUX"):
    flag = {"E": ["-E"], "S": ["-S"], "c": ["-c"], "link": []}[b["mode"]]
    f = b["fault"]
    opath = ("nodir/out%d" if f["t"] == "unwritable" and f["how"] != "isdir" else "out%d") % d
    pre, post = [], []
    if f["t"] == "opt":
        name = ARGOPTS[f["k"] - 1]
        if f["how"] == "noarg":
            post = [name]                       # the very last word of the command, without its argument
        else:
            val = {"val": OPTVAL.get(name), "missing": "AUX/nosuch.h", "isdir": "AUX/inc"}[f["how"]]
            pre = [name, val.replace("AUX", aux)]
    files = []
    for i, k in enumerate(eff_kinds(b), 1):
        if k == "x" and (i + len(b["ins"]) + (b["pre"] == "old")) % 2:
            files += ["-x", "none"]            # changes nothing (FILE_NONE is the default): same rejection
        files.append("in%d.%s" % (i, k))
    return flag + pre + (["-o", opath] if b["o"] else []) + files + post


def populate(inputs, b, cwd, outs=("out1",)):     # outs: -o paths whose directory exists
    """directory contents for behaviour b; returns {name: (bytes, class)} of the input files"""
    orig = {}
    names = set()
    for i, k in enumerate(eff_kinds(b), 1):
        n = "in%d.%s" % (i, k)
        names.add(n)
        if b["df"]["i"] == i and b["df"]["t"] == "missing":
            continue
        if b["df"]["i"] == i and b["df"]["t"] == "isdir":          # the name exists, but it is a directory
            os.mkdir(os.path.join(cwd, n))
            continue
        if b["df"]["i"] == i and b["df"]["t"] == "eloop":          # the name exists, but cannot be opened (root can read every file)
            os.symlink(n, os.path.join(cwd, n))
            continue
        bad = b["df"]["t"] if b["df"]["i"] == i and b["df"]["t"] in ("bad", "badgen") else False
        data = inputs.content(i, k, b["mode"], bad)
        open(os.path.join(cwd, n), "wb").write(data)
        orig[n] = (data, bad or "src")
    if b["pre"] == "old":
        for p in [x for x in user_paths() if x != "out1"] + list(outs):
            if p not in names:
                open(os.path.join(cwd, p), "wb").write(OLD)
    return orig


def noexec_flavour(b):
    """missing from PATH or present but not executable: fixed per behaviour (not per seed)"""
    return "eacces" if (len(b["ins"]) + b["fault"]["k"] + (b["pre"] == "old") + bool(b["o"])) % 2 else "enoent"


def run_driver(ctx, tree, shim, b, rundir, cwd, d=1, popen=False):
    cnt = os.path.join(rundir, "cnt%d" % d)
    os.makedirs(cnt, exist_ok=True)
    shimdir, real = shim
    f = b["fault"]
    env = {}
    if f["how"] == "noexec":
        # the k-th call of the tool cannot be started: a private copy of the shim directory in which
        # the call before it removes the tool (ENOENT) or puts a non-executable file in its place (EACCES); PATH holds
        # nothing else, so execvp finds no other `as` / `ld`
        mine = os.path.join(rundir, "shim%d" % d)
        os.makedirs(mine)
        for n in ("chibicc", "as", "ld"):      # hard links, not copies: no descriptor open for writing while other threads fork
            os.link(os.path.join(shimdir, n), os.path.join(mine, n))
        shimdir = mine
        env = dict(C14_SHIMDIR=mine, C14_NOEXEC=noexec_flavour(b))
    env = dict(os.environ, PATH=shimdir if f["how"] == "noexec" else shimdir + ":/usr/bin:/bin", C14_CNT=cnt,
               C14_REAL_CC=tree + "/chibicc", C14_REAL_AS=real["as"], C14_REAL_LD=real["ld"], LC_ALL="C", **env)
    env.pop("CHIBICC_VERIF_TRACE", None)
    env["C14_FAULT"] = "%s:%d:%s" % (f["t"], f["k"], f["how"]) if f["t"] in ("cc1", "as", "ld") else ""
    st = os.path.join(rundir, "strace%d.txt" % d)
    if f["t"] == "unwritable" and f["how"] == "isdir":
        os.makedirs(os.path.join(cwd, "out%d" % d), exist_ok=True)      # -o names an existing directory
    cmd = STRACE + ["-o", st, shimdir + "/chibicc"] + argv_of(b, d, make_aux(rundir) if f["t"] == "opt" else "AUX")
    so = open(os.path.join(rundir, "stdout%d" % d), "wb")
    se = open(os.path.join(rundir, "stderr%d" % d), "wb")
    p = subprocess.Popen(cmd, cwd=cwd, env=env, stdin=subprocess.DEVNULL, stdout=so, stderr=se)
    if popen:
        return p, st
    try:
        p.wait(timeout=60)
    except subprocess.TimeoutExpired:
        p.kill()
        p.wait()
        raise Infra("driver run timed out: %s" % " ".join(cmd))
    return p.returncode, st


def listing(cwd, orig, tmpmap, made=()):
    """what is on disk afterwards, as [{p, c}]; removes this run's surviving temporaries"""
    tmpmap = dict(tmpmap)
    for raw in made:                       # created without O_EXCL (not a mkstemp event): still this run's litter
        tmpmap.setdefault(raw, "stray-tmp")
    out = []
    for root, dirs, files in os.walk(cwd):
        for fn in dirs:
            out.append(dict(p=os.path.relpath(os.path.join(root, fn), cwd), c="dir"))
        for fn in files:
            rel = os.path.relpath(os.path.join(root, fn), cwd)
            try:
                data = open(os.path.join(root, fn), "rb").read()
            except OSError:
                out.append(dict(p=rel, c="loop"))               # a symbolic link to itself
                continue
            out.append(dict(p=rel, c=classify(data, orig.get(rel))))
    for raw, n in tmpmap.items():
        try:                               # (a broken driver may share these names between concurrent runs)
            data = open(raw, "rb").read()
        except OSError:
            continue
        out.append(dict(p=n, c=classify(data, None)))
        try:
            os.unlink(raw)
        except OSError:
            pass
    return sorted(out, key=lambda r: r["p"])


def reset_event(b, run):
    return dict(e="reset", run=run, ins=b["ins"], mode=b["mode"], o=bool(b["o"]), pre=b["pre"],
                df=dict(t=b["df"]["t"], i=b["df"]["i"]), fault=dict(t=b["fault"]["t"], k=b["fault"]["k"], how=b["fault"]["how"]))


def run_case(ctx, tree, shim, inputs, b, idx, keep=False):
    """execute behaviour b with the real driver; -> dict(events, rc, info)"""
    rundir = os.path.join(ctx.tmp("runs"), "r%d" % idx)
    cwd = os.path.join(rundir, "d")
    os.makedirs(cwd)
    orig = populate(inputs, b, cwd, outs=() if b["fault"]["t"] == "unwritable" else ("out1",))
    rc, st = run_driver(ctx, tree, shim, b, rundir, cwd)
    text = open(st, errors="replace").read()
    evs, info = parse_strace(text, cwd)
    if info["shim_trouble"] or not info["done"]:
        raise Infra("run %s: shim/strace trouble (rc=%s): %s" % (beh_key(b), rc, open(rundir + "/stderr1", errors="replace").read()[-500:]))
    evs.append(dict(e="final", fs=listing(cwd, orig, info["tmp"], info["made"])))
    res = dict(events=[reset_event(b, idx)] + evs, rc=rc, argv=argv_of(b), strace=None if not keep else text)
    if keep:
        res["stderr"] = open(rundir + "/stderr1", errors="replace").read()[-2000:]
    shutil.rmtree(rundir, ignore_errors=True)
    return res


# ---------------------------------------------------------- trace validation
def tlc_validate(ctx, events, label):
    """-> list of indices (into events) of rejected events, one per rejected run"""
    tf = os.path.join(ctx.scratch, "trace-%s.ndjson" % label)
    vt.write_ndjson(tf, events + [dict(e="eof")])
    out = tf + ".rej"

    def once(count):
        if os.path.exists(out):
            os.unlink(out)
        ctx.tlc("driver", "DriverTrace", "DriverTrace.cfg", env=dict(TRACE=tf, OUT=out), workers=1, timeout=900, count=count)
        rows = vt.read_ndjson(out)
        if not rows:
            raise Infra("trace validation %s did not reach the end of the trace" % label)
        return [r["at"] - 1 for r in rows[-1]["rejected"]]
    rej = once(True)
    if rej:                        # a rejection must repeat (DESIGN 4.6)
        if once(False) != rej:
            raise Infra("trace validation %s not reproducible" % label)
    return rej


def ev_summary(mode, ev, before=()):
    """classification of the first unexplained event: names the root-cause class"""
    def cls(p):
        if p == "-":
            return "stdout"
        if re.fullmatch(r"t\d+", p):
            return "tmp"
        if p.startswith("out"):
            return "-o"
        if p == "a.out":
            return "a.out"
        m = re.fullmatch(r"in\d\.(\w)", p)
        return "in." + m.group(1) if m else "other"
    k = ev["e"]
    if k == "exec":
        return "exec:%s(%s->%s)" % (ev["tool"], ",".join(cls(x) for x in ev["ins"]), cls(ev["out"]))
    if k == "run":
        return "run:w=%s:u=%s" % (",".join(cls(x) for x in ev["writes"]), ",".join(cls(x) for x in ev["unlinks"]))
    if k == "wait":
        return "wait:" + ev["status"]
    if k == "execfail":
        return "execfail:" + ev["tool"]
    if k == "exit":       # with how many of the temporaries made so far already unlinked
        return "exit:%d:unlinked=%d/%d" % (ev["code"], len([1 for x in before if x["e"] == "unlink"]), len([1 for x in before if x["e"] == "mkstemp"]))
    if k == "unlink":
        return "unlink:" + cls(ev["p"])
    if k == "drvopen":
        return "drvopen:" + ("tmp-without-O_EXCL" if ev["p"].startswith("foreign:/tmp/chibicc-") else cls(ev["p"]))
    if k == "final":
        return "final:" + ",".join("%s=%s" % (r["p"] if not re.fullmatch(r"t\d+", r["p"]) else "tmp", r["c"]) for r in ev["fs"]
                                   if r["c"] not in ("src", "bad", "badgen", "old", "dir", "loop"))
    return k


def validate_runs(ctx, results, label, chunk=120, rerun=None):
    """results: list of (behaviour, run_case result).  TLC judges; rejections are reported.
    Returns the set of indices (into results) of the rejected runs."""
    chunks = [results[j:j + chunk] for j in range(0, len(results), chunk)]

    def one(t):
        ci, ch = t
        evs, owner = [], []
        for bi, (b, r) in enumerate(ch):
            evs += r["events"]
            owner += [bi] * len(r["events"])
        return [(ch[owner[i]], evs[i], ci * chunk + owner[i]) for i in tlc_validate(ctx, evs, "%s-%d" % (label, ci))], len(evs)
    rejs = []
    for rj, nev in vt.pmap(one, list(enumerate(chunks)), workers=6):
        ctx.cov.setdefault("trace_events", 0)
        ctx.cov["trace_events"] += nev
        rejs += rj
    if rerun and 0 < len(rejs) <= 24:
        # a rejected run is executed and validated once more; only a repeated rejection counts
        again = [(b, rerun(b, 100000 + k)) for k, ((b, r), ev, ri) in enumerate(rejs)]
        evs, owner = [], []
        for k, (b, r) in enumerate(again):
            evs += r["events"]
            owner += [k] * len(r["events"])
        still = {owner[i]: evs[i] for i in tlc_validate(ctx, evs, label + "-again")}
        ctx.cov["rejections_not_repeated"] = ctx.cov.get("rejections_not_repeated", 0) + len(rejs) - len(still)
        rejs = [((b, again[k][1]), still[k], ri) for k, ((b, r), ev, ri) in enumerate(rejs) if k in still]
    for (b, r), ev, ri in rejs:
        pos = [j for j, x in enumerate(r["events"]) if x is ev]
        sig = "trace:%s%s:%s%s" % (b["mode"], "+o" if b["o"] else "", family(b), ev_summary(b["mode"], ev, r["events"][:pos[0]] if pos else ()))
        ctx.report(sig, "chibicc %s (inputs %s, fault %s/%s): recorded run is not a behaviour of Driver.tla at event %s; model expects calls %s, exit %s" % (
            " ".join(r["argv"]), b["ins"], b["fault"], b["df"], ev, [(x["tool"], x["status"]) for x in b["log"]], b["code"]),
            case=dict(kind="run", beh=b, rejected_event=ev, events=r["events"]))
    ctx.cov["traces_validated_against_impl"] += len(results)
    return {ri for _, _, ri in rejs}


# ------------------------------------------------------------ two real drivers
def two_driver_case(ctx, tree, shim, inputs, b1, b2, idx):
    """b1, b2: behaviours with the same directory (ins, pre, df); run concurrently."""
    rundir = os.path.join(ctx.tmp("runs2"), "p%d" % idx)
    cwd = os.path.join(rundir, "d")
    os.makedirs(cwd)
    orig = populate(inputs, b1, cwd, outs=[o for o, b in (("out1", b1), ("out2", b2)) if b["fault"]["t"] != "unwritable"])
    p1, st1 = run_driver(ctx, tree, shim, b1, rundir, cwd, d=1, popen=True)
    p2, st2 = run_driver(ctx, tree, shim, b2, rundir, cwd, d=2, popen=True)
    for p in (p1, p2):
        try:
            p.wait(timeout=60)
        except subprocess.TimeoutExpired:
            p.kill()
            raise Infra("two-driver run timed out")
    out = []
    for d, st, b in ((1, st1, b1), (2, st2, b2)):
        evs, info = parse_strace(open(st, errors="replace").read(), cwd)
        if info["shim_trouble"] or not info["done"]:
            raise Infra("two-driver run: shim/strace trouble")
        for ev in evs:               # driver 2's -o path is out2 on disk, out1 in the single-driver model
            for f in ("out", "p"):
                if ev.get(f) == "out2":
                    ev[f] = "out1"
            for f in ("ins", "reads", "writes", "unlinks"):
                if f in ev:
                    ev[f] = ["out1" if x == "out2" else x for x in ev[f]]
        out.append(dict(events=[reset_event(b, idx * 2 + d)] + evs, info=info, argv=argv_of(b, d)))
    fin = listing(cwd, orig, dict(list(out[0]["info"]["tmp"].items()) + [(k, "u" + v) for k, v in out[1]["info"]["tmp"].items()]),
                  out[0]["info"]["made"] + out[1]["info"]["made"])
    shutil.rmtree(rundir, ignore_errors=True)
    return out, fin


def expected_two(b1, b2):
    """final class of every user path when both commands ran: a path changed by exactly one
    command has that command's result; changed by both: either result"""
    def final(b, d):
        m = {r["p"]: r["t"] for r in b["fs"]}
        if d == 2:
            m = {("out2" if p == "out1" else p): t for p, t in m.items()}
        return m
    f1, f2 = final(b1, 1), final(b2, 2)
    init = {}
    names = {"in%d.%s" % (i, k) for i, k in enumerate(eff_kinds(b1), 1)}
    for p in [x for x in user_paths() if x != "out1"] + ["out1", "out2"]:
        if p in names:
            i = int(p[2])
            init[p] = {"missing": "absent", "isdir": "dir", "eloop": "loop"}.get(b1["df"]["t"], b1["df"]["t"]) if b1["df"]["i"] == i and b1["df"]["t"] != "unkext" else "src"
        else:
            init[p] = b1["pre"]
    exp = {}
    for p in init:
        a = f1.get(p, "absent") if p != "out2" else init[p]
        c = f2.get(p, "absent") if p != "out1" else init[p]
        cl = lambda t: t if t in ("absent", "src", "bad", "badgen", "old", "dir", "loop") else t[0]
        a, c = cl(a), cl(c)
        if p == "out1" and b1["fault"]["t"] == "unwritable" or p == "out2" and b2["fault"]["t"] == "unwritable":
            exp[p] = {"dir" if (b1 if p == "out1" else b2)["fault"]["how"] == "isdir" else "absent"}
        elif a == init[p]:
            exp[p] = {c}
        elif c == init[p]:
            exp[p] = {a}
        else:
            exp[p] = {a, c}
    return exp


def run_pairs(ctx, tree, shim, inputs, pairs):
    res = vt.pmap(lambda t: two_driver_case(ctx, tree, shim, inputs, t[1][0], t[1][1], t[0]), list(enumerate(pairs)), workers=8)
    solo = []
    for (b1, b2), (out, fin) in zip(pairs, res):
        key = "pair:%s|%s" % (beh_key(b1), beh_key(b2))
        ctx.note_case(key)
        case = dict(kind="pair", b1=b1, b2=b2)
        # P5 on the traces: no process of one driver touches a temporary made by the other
        t1, t2 = set(out[0]["info"]["tmp"]), set(out[1]["info"]["tmp"])
        if t1 & t2:
            ctx.report("pair:P5:same-temporary-name", "both drivers created %s" % sorted(t1 & t2), case=case)
        for o in out:
            for ev in o["events"]:
                for f in ("ins", "reads", "writes", "unlinks"):
                    if any(str(x).startswith("foreign:") for x in ev.get(f, [])):
                        ctx.report("pair:P5:foreign-temporary-touched", "%s in %s" % (ev, o["argv"]), case=case)
                if str(ev.get("p", "")).startswith("foreign:") or str(ev.get("out", "")).startswith("foreign:"):
                    ctx.report("pair:P5:foreign-temporary-touched", "%s in %s" % (ev, o["argv"]), case=case)
        solo += [(b1, dict(events=out[0]["events"], argv=out[0]["argv"])), (b2, dict(events=out[1]["events"], argv=out[1]["argv"]))]
    # each run of a pair must by itself be a behaviour of the model (TLC) ...
    rejected = validate_runs(ctx, solo, "pair")
    for pi, ((b1, b2), (out, fin)) in enumerate(zip(pairs, res)):
        if 2 * pi in rejected or 2 * pi + 1 in rejected:
            continue          # ... already reported there; its final state is a consequence
        case = dict(kind="pair", b1=b1, b2=b2)
        # P1 / P4 / P5 on the final state
        exp = expected_two(b1, b2)
        got = {r["p"]: r["c"] for r in fin}
        for p in sorted(set(exp) | set(got)):
            g = got.get(p, "absent")
            if re.fullmatch(r"u?t\d+|stray-tmp", p):
                ctx.report("pair:P1:temporary-left", "temporary of driver %s survives (%s) after %s | %s" % ("2" if p[0] == "u" else "1", g, out[0]["argv"], out[1]["argv"]), case=case)
            elif g not in exp.get(p, {"absent"}):
                ctx.report("pair:final:%s=%s" % (re.sub(r"\d", "N", p), g), "after `%s` || `%s`: %s is %s, the model allows %s" % (
                    " ".join(out[0]["argv"]), " ".join(out[1]["argv"]), p, g, sorted(exp.get(p, {"absent"}))), case=case)


def make_pairs(beh, seed, n):
    """pairs of behaviours in the same directory; at most one fault in total (as in the model)"""
    groups = {}
    for b in beh:
        if b["fault"]["t"] == "opt":
            continue                 # (an option fault adds nothing to two concurrent drivers: the model has them for one driver only)
        # same directory = same files with the same contents (under -E every input holds C text)
        groups.setdefault((tuple(b["ins"]), b["pre"], b["df"]["t"], b["df"]["i"], b["mode"] == "E"), []).append(b)
    pairs = []
    for g in sorted(groups):
        bs = groups[g]
        for i, b1 in enumerate(bs):
            for b2 in bs:
                if (b1["fault"]["t"] != "none") + (b2["fault"]["t"] != "none") + (g[2] != "none") <= 1:
                    pairs.append((b1, b2))
    pairs = vt.subsample(pairs, seed, max(1, len(pairs) // n))
    return pairs[:n]


# -------------------------------------------------------------------- run
CONTROLS = [("DoCleanup", False, "P1", 1), ("CheckWait", False, "P2", 1), ("Buffered", False, "P3", 1),
            ("Pinned", True, "P4", 1), ("ExclTmp", False, "P5", 2), ("AtExit", False, "P1", 1),
            ("DirIsEmpty", True, "P6", 1), ("ArgCheck", False, "P6", 1)]


def model_check2(ctx, errors):
    """two drivers, all interleavings (runs beside the replay)"""
    try:
        cfg = ctx.cfg("driver", "Driver_mc2.cfg", MaxIn=1 if ctx.quick else 2)
        ctx.tlc_expect_ok("driver", "Driver", cfg, "two interleaved drivers violate P1-P5", workers=4, heap="6g", deque=True, timeout=2400)
    except BaseException as e:
        errors.append(e)


def controls(ctx, errors):
    """sensitivity: each deliberately wrong variant of the model must be rejected by TLC"""
    def one(t):
        name, val, inv, nd = t
        if nd == 1:
            # (a driver-level error with temporaries outstanding needs a second input)
            cfg = ctx.cfg("driver", "Driver_mc1.cfg", name="ctl-" + name, MaxIn=2 if name == "AtExit" else 1, Emit=False, **{name: val})
        else:
            cfg = ctx.cfg("driver", "Driver_ctl2.cfg", name="ctl-" + name, **{name: val})
        r = ctx.tlc("driver", "Driver", cfg, workers=1, count=False, deque=True)
        if r.ok or r.violated != inv:
            raise Infra("sensitivity control failed: model with %s=%s should violate %s, TLC says %s" % (name, val, inv, r.violated))
        if name == "AtExit" and '"unkext"' not in r.trace_text():
            raise Infra("sensitivity control failed: cleanup by explicit calls must be rejected through a driver-level error()")
        if name == "DirIsEmpty" and '"dir"' not in r.trace_text():
            raise Infra("sensitivity control failed: a front end that reads a directory as an empty file must be rejected through a directory input")
        if name == "ArgCheck" and '"noarg"' not in r.trace_text():
            raise Infra("sensitivity control failed: a driver that does not check option arguments must be rejected through an option without its argument")
        if name == "Buffered" and '"badgen"' not in r.trace_text():
            raise Infra("sensitivity control failed: the unbuffered front end must be rejected through an input that fails in codegen()")
    def live(t):
        nd, maxin = t
        cfg = ctx.cfg("driver", "Driver_live.cfg", name="live%d" % nd, ND=nd, MaxIn=maxin)
        ctx.tlc_expect_ok("driver", "Driver", cfg, "a driver does not terminate under fairness (or violates P1-P5)", workers=2, heap="6g", timeout=2400)
    try:
        vt.pmap(one, CONTROLS, workers=6)
        # liveness: every driver terminates (WF on each driver's steps)
        vt.pmap(live, [(1, 2)] if ctx.quick else [(1, 3), (2, 1)], workers=2)
    except BaseException as e:
        errors.append(e)


def load_behaviours(path):
    lines = sorted(set(open(path)))          # liveness checking evaluates Exit more than once
    out = []
    for l in lines:
        v = json.loads(l)
        out.append(json.loads(v) if isinstance(v, str) else v)
    return out


def stratified(beh, seed, stride):
    """seed-selected 1/stride of the behaviours, taken inside every stratum (mode, -o, kind of
    directory fault, kind of tool fault) so that no fault family is thinned out by the order of
    enumeration; a stratum smaller than the stride still contributes one behaviour"""
    if stride <= 1:
        return list(beh)
    strata = {}
    for b in beh:
        if b["fault"]["t"] == "opt":          # every option of the table, in each of its forms, whatever the mode
            strata.setdefault(("opt", b["fault"]["k"], b["fault"]["how"]), []).append(b)
            continue
        strata.setdefault((b["mode"], b["o"], b["df"]["t"], b["fault"]["t"], b["fault"]["how"], b["ntmp"] > 0), []).append(b)
    out = []
    for k in sorted(strata, key=str):
        bs = strata[k]
        out += vt.subsample(bs, seed, stride) or [bs[seed % len(bs)]]
    return out


def run(ctx):
    q = ctx.quick
    tree = ctx.build()
    shim = build_shim(ctx)
    inputs = Inputs(ctx)
    ctx.phase("build done")
    errors = []
    ths = [threading.Thread(target=f, args=(ctx, errors)) for f in (model_check2, controls)]
    for th in ths:
        th.start()
    # 1. one driver: all shapes x all single faults, P1..P5 + termination; emits the behaviours
    out = os.path.join(ctx.scratch, "beh.ndjson")
    g = ctx.tlc("driver", "Driver", "Driver_mc1.cfg", env=dict(OUT=out), workers=4, heap="6g", deque=True)
    if not g.ok:
        p = ctx.replay_dir("tlc-Driver-mc1")
        open(p + "/counterexample.txt", "w").write(g.trace_text())
        json.dump(dict(kind="tlc", area="driver", module="Driver", cfg="Driver_mc1.cfg"), open(p + "/case.json", "w"))
        ctx.report("tlc:Driver:mc1:%s" % g.violated, "driver design violates " + str(g.violated), p)
    beh = load_behaviours(out)
    if len(beh) < 1000:
        raise Infra("generator wrote only %d behaviours" % len(beh))
    ctx.phase("mc1 done (%d behaviours)" % len(beh))
    # 2. replay a seed-selected subsample (quick) / everything (thorough) on the real driver
    todo = stratified(beh, ctx.seed, 10 if q else 1)
    results = vt.pmap(lambda t: run_case(ctx, tree, shim, inputs, t[1], t[0]), list(enumerate(todo)), workers=12)
    for b in todo:
        ctx.note_case(beh_key(b), nontrivial=b["fault"]["t"] != "none" or b["df"]["t"] != "none" or len(b["ins"]) > 1)
    mid = todo[len(todo) // 2]
    ctx.sample(dict(kind="replayed behaviour", command="chibicc " + " ".join(argv_of(mid)), inputs=mid["ins"], initial_outputs=mid["pre"],
                    fault=mid["fault"], directory_fault=mid["df"], expected_exit=mid["code"], expected_calls=mid["log"], expected_final_fs=mid["fs"]))
    ctx.phase("replay done (%d runs)" % len(todo))
    # 3. TLC: every recorded run is a behaviour of the model
    validate_runs(ctx, list(zip(todo, results)), "solo", rerun=lambda b, i: run_case(ctx, tree, shim, inputs, b, i))
    ctx.phase("trace validation done")
    # 4. two real drivers in one directory
    pairs = make_pairs(beh, ctx.seed, 40 if q else 600)
    run_pairs(ctx, tree, shim, inputs, pairs)
    ctx.sample(dict(kind="two concurrent drivers", a="chibicc " + " ".join(argv_of(pairs[0][0], 1)), b="chibicc " + " ".join(argv_of(pairs[0][1], 2))))
    ctx.phase("pairs done (%d)" % len(pairs))
    for th in ths:
        th.join()
    if errors:
        raise errors[0]
    ctx.phase("mc2 + controls done")
    ctx.assumptions += [
        "children are modelled from the observed behaviour of GNU as/ld (output unlinked+created first, removed on error) and of chibicc -cc1 (output opened once, at the end); each recorded run re-validates this",
        "mkstemp never hands out the same name twice (fresh-name abstraction of the random suffix + O_EXCL)",
        "the tests run as root: an unreadable input is a missing file, a directory or a symbolic link to itself; an unwritable output is -o into a directory that does not exist or -o naming a directory",
        "death of the driver process itself (signal to the driver) is outside the property: atexit handlers do not run then",
        "-E treats every input as C source (opt_x = FILE_C): modelled as the driver's documented behaviour",
        "two real drivers are run concurrently without forcing a schedule; all interleavings are covered by TLC on the model only"]
    return ctx.finish(
        rule="case = one terminated behaviour of Driver.tla with one driver = (mode, -o, input kinds, initial outputs old/absent, single fault: tool / input kind / -o / option table), executed with the real driver under strace and validated by TLC against DriverTrace.tla; pairs = two such commands run concurrently in one directory; non-trivial = a fault is injected or more than one input",
        exhaustive=not q,
        extra=dict(behaviours_in_model=len(beh), behaviours_replayed=len(todo), concurrent_pairs=len(pairs)))


def replay(ctx, path):
    c = json.load(open(os.path.join(path, "case.json")))
    c = c.get("case") or c
    if c.get("kind") == "tlc":
        ctx.tlc_expect_ok(c["area"], c["module"], c["cfg"], "replayed model check", env=c.get("env"), workers=4)
        return ctx.finish(rule="replay of one recorded case")
    tree = ctx.build()
    shim = build_shim(ctx)
    inputs = Inputs(ctx)
    if c.get("kind") == "run":
        r = run_case(ctx, tree, shim, inputs, c["beh"], 0, keep=True)
        print("$ chibicc %s   -> exit %s (model: %s)" % (" ".join(r["argv"]), r["rc"], c["beh"]["code"]))
        for ev in r["events"]:
            print("   ", json.dumps(ev))
        validate_runs(ctx, [(c["beh"], r)], "replay")
    elif c.get("kind") == "pair":
        run_pairs(ctx, tree, shim, inputs, [(c["b1"], c["b2"])])
    return ctx.finish(rule="replay of one recorded case")
