#!/bin/bash
# proposed/apply_fix.sh <diff> <msgfile>: apply one proposed patch to /repo as its own commit.
set -e
cd /repo
git apply --check "$1" 2>/dev/null && git apply "$1" || patch -p1 --no-backup-if-mismatch < "$1"
git add -A
git commit -q -F "$2"
git log --oneline | head -1
