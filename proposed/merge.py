#!/usr/bin/env python3
"""proposed/merge.py <ID> [commit-map k=v ...]: merge proposed/<ID>/findings.json into known_findings.json
(ids made unique by prefixing the property id when they clash) and manifest_entry.json into MANIFEST.json."""
import json, sys, os
V = "/verif"
pid = sys.argv[1]
cm = dict(a.split("=", 1) for a in sys.argv[2:])
kf = json.load(open(V + "/known_findings.json"))
have = {f["id"] for f in kf["findings"]}
p = "%s/proposed/%s/findings.json" % (V, pid)
if os.path.exists(p):
    for f in json.load(open(p)).get("findings", []):
        f.pop("signatures_if_not_fixed", None)
        if f["id"] in have:
            same = [g for g in kf["findings"] if g["id"] == f["id"]][0]
            if same.get("what") == f.get("what") and same.get("line") == f.get("line"):
                continue
            f["id"] = "%s-%s" % (pid, f["id"])
            if f["id"] in have:
                kf["findings"] = [g for g in kf["findings"] if g["id"] != f["id"]]
        for k, v in cm.items():
            if f.get("commit") and k in f["commit"]:
                f["commit"] = v
                if "line" in f:
                    f["line"] = f["line"].replace("property=%s " % f["properties"][0], "property=%s %s " % (f["properties"][0], v), 1) if v not in f["line"] else f["line"]
        kf["findings"].append(f)
        have.add(f["id"])
    json.dump(kf, open(V + "/known_findings.json", "w"), indent=1)
m = json.load(open(V + "/MANIFEST.json"))
e = json.load(open("%s/proposed/%s/manifest_entry.json" % (V, pid)))
chk = e.get("check", e)
m["checks"] = [c for c in m["checks"] if c["property_id"] != pid] + [chk]
m["checks"].sort(key=lambda c: c["property_id"])
m["not_applicable"] = [x for x in m.get("not_applicable", []) if x["property_id"] != pid]
if pid not in m["engines"][0]["serves_properties"]:
    m["engines"][0]["serves_properties"].append(pid)
    m["engines"][0]["serves_properties"].sort()
json.dump(m, open(V + "/MANIFEST.json", "w"), indent=1)
print("merged", pid)
